#!/usr/bin/env python3
"""Regenerates /verif/MANIFEST.json from the table below."""
import json, subprocess
ALL = ["C%02d" % i for i in range(1, 21)]
# id -> (technique, level text, level note, design ref)
PBT = "property-based testing (proptest TestRunner, 16 seeded shards, shrinking; thorough tier adds coverage-guided fuzzing: a libFuzzer campaign whose bytes are the random stream of the same proptest strategies, same oracles)"
CLAIMED = {
 "C01": (PBT + ": generated operand tuples vs exact i128 reference model",
         "Generated-input search: operand tuples biased to century boundaries, the bounds, mixed signs and saturation, each compared with exact 128-bit arithmetic then clamp, for + - neg abs, * / by i64, the assignment and Unit forms. Finds any arithmetic defect that shows on those classes; does not establish absence.",
         "Trusts the small i128 model (harness/src/model.rs) and to_parts() as the definition of a duration's count. Open finding KF-total-ns-sign: a failing Mul/Div case whose operand has century field <= -2 with non-zero nanoseconds is excluded (and counted) only when the answer is exactly the one the finding predicts (defect model); any other answer there is a violation.",
         "DESIGN.md section 6 C01"),
 "C02": (PBT + ": constructor / read-back round trips vs clamp(intended integer)",
         "Generated-input search over every constructor family (i128 counts, raw parts, i64 x nine units, composed fields, std durations, truncated i64) and the 64-bit accessors, compared with clamp(intended integer) and the canonical-form predicate.",
         "Trusts the i128 model; total_nanoseconds() read-back for century field <= -2 with non-zero nanoseconds is the open finding KF-total-ns-sign: excluded (counted) only when the value read is exactly centuries*NPC - nanoseconds.",
         "DESIGN.md section 6 C02"),
 "C03": (PBT + ": generated pairs / triples / vectors vs integer order of the counts",
         "Generated-input search over free and structured pairs (negations, a+b = k centuries, adjacent centuries), triples and vectors; every comparison operator, min/max, sort and Unit comparison must agree with the order of the i128 counts; == between different counts only allowed for exact negations within one century.",
         "Trusts the i128 model and to_parts().",
         "DESIGN.md section 6 C03"),
 "C04": (PBT + ": model (scale, count) arithmetic and inverse identities",
         "Generated epochs in nine scales x durations / units / integer float seconds / second epochs; result count, unchanged scale, (e+d)-e=d, (e+d)-d=e, e+(f-e)=f and cross-scale differences against the model.",
         "Trusts the model's scale offsets and leap table; TAI instants inside an inserted leap second are skipped where a UTC count is needed.",
         "DESIGN.md section 6 C04"),
 "C05": (PBT + " + exhaustive enumeration of constants: constant-offset model computed from civil dates",
         "All 36 ordered pairs of the uniform scales x generated counts: exact count, round trip, identity, commutation with +duration, accessor/constructor families; 40 public constants and the reference epochs enumerated exhaustively against values derived from the civil reference dates and lags of the statement.",
         "Offsets are computed in the harness from days-from-civil, not copied from the source.",
         "DESIGN.md section 6 C05"),
 "C06": (PBT + " + exhaustive +-40 s grid around all 28 entries: independent IERS table and file parsers",
         "Exhaustive grid (28 entries x 3 axes x 81 s x 3 ns offsets) plus generated instants and generated IERS-format provider files; UTC->TAI exact, round trip, strict monotonicity, TAI->UTC pre-image on image instants and enclosure inside an inserted second; table rows vs the two shipped files.",
         "Reference table = 28 civil dates in the harness (public IERS facts); accessors asserted absolutely only > 40 s from an entry.",
         "DESIGN.md section 6 C06"),
 "C07": (PBT + ": closed forms of the statement evaluated in f64, tolerances verbatim",
         "Generated epochs within +-10 000 years of J2000 in six uniform scales (forward) and in ET/TDB (reverse): (dyn - TAI) vs the closed form within 30 ns, round trips within 20 ns, order beyond 100 ns, accessors consistent, zero epochs.",
         "t in the closed forms is the resulting ET/TDB seconds past J2000; f64 evaluation error < 1e-12 s over the span.",
         "DESIGN.md section 6 C07"),
 "C08": ("exhaustive enumeration of all days 0001-9999 + " + PBT + ": days-from-civil oracle, generated rejections",
         "Every calendar day of years 0001-9999 (3 652 059 days) is built in a rotating scale / time-of-day class (thorough: all nine scales x three classes) and compared with days-from-civil x 86400 s + time of day; generated times of day, sampled years to +-30 000, leap-second inputs, and generated out-of-range field combinations that no constructor of the family (maybe_*, the panicking wrappers with the subset of fields each takes, from_gregorian_str, month-name formats) may turn into a date; second = 60 enumerated around every month end 1958-2040.",
         "Calendar oracle cross-checked (inverse pair, successor relation) over +-40 000 years at start-up. Open finding KF-feb30-leap-year: 30/31 February in leap years is excluded from the rejection part only when the day is the only invalid field a route receives and the value built is the same time on 1 / 2 March.",
         "DESIGN.md section 6 C08"),
 "C09": ("exhaustive enumeration of all days 0001-9999 + " + PBT + ": civil-from-days rendering oracle",
         "Every calendar day of years 0001-9999 at first / last / hashed nanosecond: Display and to_gregorian_str vs the model rendering, fields fed back give the identical epoch; on a subset and on generated instants also the tuples, {:?} {:x} {:X} {:e} {:E}, rfc3339, year, month name, day of year.",
         "The epoch is built from the model count (from_duration), so C09 does not depend on C08's constructor.",
         "DESIGN.md section 6 C09"),
 "C10": (PBT + ": library text round trips, grammar-generated text vs model instant, numeric forms vs exact affine value",
         "Generated epochs formatted by Display / ISO8601 formatter / to_gregorian_str / rfc3339 / serde and parsed back (identical scale and parts); model-generated ISO / RFC 3339 text with all offsets, fraction lengths and scale suffixes parsed to the model instant; JD / MJD / SEC forms within float resolution; ISO8601_FLEX / RFC3339 formatters; serde_json through four routes and a non-human-readable serde format; each of the 27 leap seconds in six spellings.",
         "JD/MJD in GNSS scales and TT, JD in ET/TDB: not asserted (denotation undocumented / excluded by the statement).",
         "DESIGN.md section 6 C10"),
 "C11": (PBT + " + exhaustive spelling table: integer decomposition and rendering model",
         "Generated durations up to 10 000 years and, one case in eleven, over the whole representable range: decompose / subdivision / Epoch::hours().. vs integer decomposition, Display vs model string, from_str(Display), Display with format flags, serde_json (from_str / from_value / from_reader / escaped) and a non-human-readable serde format round trip identically; grammar-generated unit text over every spelling (whole-number groups exact, decimal fractions trunc(fl(value x unit))) and offsets.",
         "Sign of decompose() only required negative for negative durations (suite pins 0 for small positive).",
         "DESIGN.md section 6 C11"),
 "C12": (PBT + ": chronological order of model instants on the TAI axis",
         "Generated pairs / triples in any combination of nine scales built from a model instant and a separation (0, +-1 ns, +-2 ns, > 160 ns, 1 s, large), symmetric pairs, leap neighbourhoods: every comparison operator in both orders, min/max, ranges, sort, transitivity, invariance under conversion to a third scale.",
         "ET/TDB cross-scale pairs only beyond 160 ns; an instant inside an inserted leap second is compared with UTC operands but never converted INTO UTC (it has no UTC count).",
         "DESIGN.md section 6 C12"),
 "C13": (PBT + " (grammar + mutation string generators) and coverage-guided fuzzing (cargo-fuzz/libFuzzer, thorough tier): no panic / no hang oracle over ten parser entry points",
         "Generated grammar-valid inputs of every documented form, 1-4 structured mutations (multi-byte characters at slicing offsets, digit runs, exponents, non-ASCII digits, splices), arbitrary Unicode and (format, input) pairs fed to all ten entry points under overflow checks and a 20 s watchdog; well-formed out-of-range date-times must be rejected. Thorough adds libFuzzer campaigns with a fixed execution budget.",
         "Totality over all strings is not established. Open finding KF-feb30-leap-year (30/31 February in leap years accepted) is excluded from the must-reject class only when no entry point panics and every accepting parser returns the 1 / 2 March epoch.",
         "DESIGN.md sections 6 C13 and 7"),
 "C14": (PBT + ": Euclidean division model in i128",
         "Generated (duration or epoch count, step) with steps of either sign from 1 ns to centuries and zero, half correlated (multiples, ties, +-1): floor / ceil / round / approx and the Epoch forms vs floor(d/|s|)*|s| etc., plus floor <= e < ceil and multiple-of-step consequences.",
         "Where the exact floor or ceil is outside [MIN, MAX] both exact-based and saturated-based answers are accepted. Open finding KF-total-ns-sign: failing cases whose operands / floored values have century field <= -2 and non-zero nanoseconds are excluded (counted) only when floor, ceil and round are exactly what the finding predicts.",
         "DESIGN.md section 6 C14"),
 "C15": (PBT + ": item-by-item comparison with start + k*step in i128",
         "Generated series (nine start scales, steps 1 ns .. 40 days, spans n*step + r with the off-by-one edges, inclusive/exclusive, end in another scale, leap / century crossings) and long series of up to 2e6 items with 1-3 ns steps: every item (canonical parts), the item count, termination, None twice; the same series through nth / skip / step_by / count / last / for, also partly consumed and exhausted; the first 48 items of series of up to 2^78 items; one walk of 2^24 items (thorough: 2^32 + 4096).",
         "The span is end - start measured in the END's scale (C04); for ET/TDB ends it is read from the library's own difference.",
         "DESIGN.md section 6 C15"),
 "C16": ("exhaustive enumeration (7x256 weekday/u8, 256 i8, 49 pairs, all days 0001-9999) + " + PBT,
         "Weekday arithmetic enumerated completely; weekday() / weekday_utc() / next() / previous() on every calendar day of years 0001-9999 at first / last / hashed nanosecond in a rotating scale, plus generated epochs within 2 us of midnight and around leap entries, vs the civil weekday of the model's TAI / UTC date.",
         "next/previous_weekday_at_midnight/_at_noon: only their documented construction is asserted, for results on or after the scale's reference epoch; weekday_in_time_scale only for TAI / UTC / TT; ET/TDB epochs are skipped within 100 ns of the accessor's midnight.",
         "DESIGN.md section 6 C16"),
 "C17": (PBT + ": exact shifts for Duration-valued accessors, exact-rational comparison within 4 ulp for float accessors",
         "Generated epochs in nine scales through ~45 JD / MJD / UNIX / TT / GNSS accessors, Duration-valued ones exact, float-valued ones against the exact rational in extended precision; generated JD/MJD/UNIX inputs through 17 constructors and back within float precision.",
         "For ET/TDB sources the TAI/UTC/TT counts come from the library's own conversion (C07 covers its accuracy).",
         "DESIGN.md section 6 C17"),
 "C18": (PBT + ": one-IEEE-multiplication model, limb-wise exact product, exact-rational float comparison, 20 s hang watchdog",
         "Out: generated durations over the whole range read as seconds and nine units within 4 ulp, correct sign, monotone on ordered pairs. In: generated finite f64 (all classes) x nine units through every form == clamp(trunc(x*unit)) and exact for integer products < 2^53; infinities, NaN no-panic. Duration x f64 against the exact product by schoolbook limb multiplication within 1 ns + float rounding, under a hang watchdog.",
         "'a few ulp' = 4 ulp; Duration x NaN is outside the statement's finite-input clause.",
         "DESIGN.md section 6 C18"),
 "C19": (PBT + ": token-by-token rendering model, documented strings of the constants, parse-back",
         "Generated formats of 1-16 tokens with 0-2 separators x generated epochs x time-zone offsets: output string equality with the model; Formatter::to_time_scale; the nine constants vs their documented strings and semantics (optional tokens, ISO8601 vs Display); parse-back of full date-time and ordinal formats for UTC epochs; the largest formats (16 tokens, 62 bytes, 174 bytes of output); month and weekday names in every casing (exhaustive).",
         "ISO8601 equals Display when the fraction is non-zero and Display with the zero fraction written out otherwise (see DESIGN section 10). %y %J %w not asserted.",
         "DESIGN.md section 6 C19"),
 "C20": (PBT + ": integer div/mod on the count, days-from-civil",
         "Generated (week, ns, scale) and epochs at/after each reference: exact count, unique (week, ns < 1 week) pair, mutual inverse; all classes of u64 counters for the four GNSS scales incl. error cases and other-scale epochs; (year, day of year) round trips in nine scales within float precision, integer days exact.",
         "from_time_of_week asserted only where the result is representable.",
         "DESIGN.md section 6 C20"),
}
# model-based operation histories added in the third session (harness/src/props/chain.rs, DESIGN.md section 4)
HISTORIES = {
 "C01": " Also generated operation histories (1-16 operations on one value, operands relative to the current state, model compared after every step).",
 "C04": " Also generated histories of 1-12 shifts of one epoch with the differences between any two states of the history.",
 "C05": " Also generated walks of 2-12 conversions and additions through the six scales with the closing identity.",
 "C06": " Also generated walks through UTC / TAI / GPST / TT with additions landing on leap entries.",
 "C09": " Also generated calendar walks (jumps of days, months, 1-1000 years, leap days) with each state built by the library from the fields.",
 "C12": " Also generated sets of 2-12 mixed-scale epochs around one instant: all pairs, sort, dedup, binary search.",
}
def main():
    checks = []
    for pid in ALL:
        if pid not in CLAIMED: continue
        tech, text, note, ref = CLAIMED[pid]
        text += HISTORIES.get(pid, "")
        if pid in HISTORIES:
            tech += "; stateful / model-based generation of operation histories (vec of operations + interpreter, model in lockstep)"
        checks.append({
            "property_id": pid,
            "quick_cmd": f"./check {pid} quick",
            "thorough_cmd": f"./check {pid} thorough",
            "evidence_file": f"/verif/evidence/{pid}.json",
            "replay_cmd_template": "./check replay {path}",
            "engine": "hv",
            "level_claimed": {"category": "exploration", "text": text, "design_ref": ref},
            "level_note": note,
            "technique": tech,
        })
    na = [{"property_id": p, "reason": "check not built yet in this round (planned: property-based testing as described in DESIGN.md section 6); not claimed until it exists and is silent on the unchanged tree"} for p in ALL if p not in CLAIMED]
    m = {
        "version": 1,
        "setup_cmd": "./check build",
        "hooks": {
            "guard": "hifitime_verif",
            "enable": "none needed: every observation point is public API; checks build /repo as is (RUSTFLAGS untouched)",
            "baseline_off_cmd": "cd /repo && cargo nextest run --workspace --no-fail-fast --tool-config-file pb:/w/lib/nextest.toml --profile pb --test-threads 8 --offline",
            "source_commits": [],
            "add_only": True,
        },
        "engines": [
            {"name": "hv", "path": "/verif/harness", "serves_properties": sorted(CLAIMED.keys()),
             "kind_free_text": "Rust binary driving proptest 1.11 TestRunner over 16 fixed shards (seeded from VERIF_SEED), exhaustive enumerations of small finite spaces, independent reference model, shrinking to a JSON replay file; cargo-fuzz / libFuzzer targets (harness/fuzz) share the decoding and oracles: four byte-level text targets and one structured target driving every property's proptest strategies through proptest's pass-through RNG (vendored proptest with a two-line patch, harness/vendor)"},
        ],
        "checks": checks,
        "not_applicable": na,
        "notes": "Known findings (genuine defects recorded or repaired) are in /verif/known_findings.json; fix: commits are in /repo's history. Exit 2 / INCONCLUSIVE is used for build or infrastructure problems and time budgets, never for violations.",
    }
    json.dump(m, open('/verif/MANIFEST.json', 'w'), indent=1)
    open('/verif/MANIFEST.json','a').write('\n')
main()

#!/usr/bin/env python3
"""Regenerates /verif/MANIFEST.json from the table below."""
import json, subprocess
ALL = ["C%02d" % i for i in range(1, 21)]
# id -> (technique, level text, level note, design ref)
CLAIMED = {
 "C01": ("property-based testing (proptest): generated operand pairs vs exact i128 reference model, shrinking",
         "Generated-input search: 4M (quick) / 130M (thorough) operand tuples biased to century boundaries, the bounds, mixed signs and saturation, each compared with exact 128-bit arithmetic then clamp. Finds any arithmetic defect that shows on those classes; does not establish absence.",
         "Trusts the 60-line i128 model (harness/src/model.rs) and to_parts() as the definition of a duration's count; the open finding KF-total-ns-sign excludes Mul/Div operands with century field <= -2 and non-zero nanoseconds.",
         "DESIGN.md section 6 C01"),
 "C02": ("property-based testing (proptest): constructor/read-back round trips vs i128 clamp model",
         "Generated-input search over every constructor family (i128 counts, raw parts, i64 x nine units, composed fields, std durations, truncated i64) and the accessors, compared with clamp(intended integer) and the canonical-form predicate.",
         "Trusts the i128 model; total_nanoseconds() read-back for century field <= -2 with non-zero nanoseconds is the open finding KF-total-ns-sign and is excluded (counted).",
         "DESIGN.md section 6 C02"),
 "C03": ("property-based testing (proptest): generated pairs/triples/vectors vs integer order of the counts",
         "Generated-input search over pairs (free and structured: negations, a+b=k*century, adjacent centuries), triples and vectors; every comparison operator, min/max, sort and Unit comparison must agree with the order of the i128 counts; equality allowed between different counts only for exact negations within one century.",
         "Trusts the i128 model and to_parts().",
         "DESIGN.md section 6 C03"),
}
def main():
    checks = []
    for pid in ALL:
        if pid not in CLAIMED: continue
        tech, text, note, ref = CLAIMED[pid]
        checks.append({
            "property_id": pid,
            "quick_cmd": f"./check {pid} quick",
            "thorough_cmd": f"./check {pid} thorough",
            "evidence_file": f"/verif/evidence/{pid}.json",
            "replay_cmd_template": "./check replay {path}",
            "engine": "hv",
            "level_claimed": {"category": "exploration", "text": text, "design_ref": ref},
            "level_note": note,
            "technique": tech,
        })
    na = [{"property_id": p, "reason": "check not built yet in this round (planned: property-based testing as described in DESIGN.md section 6); not claimed until it exists and is silent on the unchanged tree"} for p in ALL if p not in CLAIMED]
    m = {
        "version": 1,
        "setup_cmd": "./check build",
        "hooks": {
            "guard": "hifitime_verif",
            "enable": "none needed: every observation point is public API; checks build /repo as is (RUSTFLAGS untouched)",
            "baseline_off_cmd": "cd /repo && cargo nextest run --workspace --no-fail-fast --tool-config-file pb:/w/lib/nextest.toml --profile pb --test-threads 8 --offline",
            "source_commits": [],
            "add_only": True,
        },
        "engines": [
            {"name": "hv", "path": "/verif/harness", "serves_properties": sorted(CLAIMED.keys()),
             "kind_free_text": "Rust binary driving proptest 1.11 TestRunner over 16 fixed shards (seeded from VERIF_SEED), exhaustive enumerations of small finite spaces, independent reference model, shrinking to a JSON replay file"},
        ],
        "checks": checks,
        "not_applicable": na,
        "notes": "Known findings (genuine defects recorded or repaired) are in /verif/known_findings.json; fix: commits are in /repo's history. Exit 2 / INCONCLUSIVE is used for build or infrastructure problems and time budgets, never for violations.",
    }
    json.dump(m, open('/verif/MANIFEST.json', 'w'), indent=1)
    open('/verif/MANIFEST.json','a').write('\n')
main()

#!/usr/bin/env python3
"""Maintain /verif/known_findings.json (never used at check run time; checks only read the file).
usage: kf.py add --id ID --status open|fixed --property Cnn --replay FILE --what TEXT [--commit SHA]
       kf.py fix --id ID --commit SHA          (turn all open entries of ID into fixed)
       kf.py list
"""
import argparse, json, os, sys
P = '/verif/known_findings.json'
def load():
    if os.path.exists(P):
        return json.load(open(P))
    return {"findings": []}
def save(d):
    json.dump(d, open(P, 'w'), indent=1, ensure_ascii=False)
    open(P, 'a').write('\n')
ap = argparse.ArgumentParser()
sp = ap.add_subparsers(dest='cmd')
a = sp.add_parser('add'); 
for k in ('id','status','property','replay','what'): a.add_argument('--'+k, required=True)
a.add_argument('--commit')
f = sp.add_parser('fix'); f.add_argument('--id', required=True); f.add_argument('--commit', required=True)
sp.add_parser('list')
args = ap.parse_args()
d = load()
if args.cmd == 'add':
    r = json.load(open(args.replay))
    e = {"id": args.id, "status": args.status, "property": args.property, "subcheck": r["subcheck"],
         "what": args.what, "witness": r["case"], "witness_debug": r.get("debug",""), "observed": r.get("message","")}
    if args.commit: e["commit"] = args.commit
    d["findings"] = [x for x in d["findings"] if not (x["id"] == args.id and x["property"] == args.property and x["subcheck"] == r["subcheck"])]
    d["findings"].append(e)
    save(d)
elif args.cmd == 'fix':
    n = 0
    for x in d["findings"]:
        if x["id"] == args.id:
            x["status"] = "fixed"; x["commit"] = args.commit; n += 1
    save(d); print("updated", n)
else:
    for x in d["findings"]:
        print(x["status"], x["property"], x["id"], x.get("commit",""), '-', x["what"][:90])

#!/bin/bash
# Runs the pinned baseline suite of /repo (guard off); prints the summary line. Exit 0 iff all pass.
cd "${1:-/repo}" || exit 2
out=$(cargo nextest run --workspace --no-fail-fast --tool-config-file pb:/w/lib/nextest.toml --profile pb --test-threads 8 --offline 2>&1)
rc=$?
echo "$out" | grep -E "Summary|FAIL|SIGABRT|error(\[|:)" | sort -u | head -20
exit $rc

use hifitime::*;
const NPC: i128 = 3_155_760_000_000_000_000;
fn model(d: Duration) -> i128 { let (c, n) = d.to_parts(); c as i128 * NPC + n as i128 }
fn days_from_civil(y: i64, m: i64, d: i64) -> i64 { let y = if m <= 2 { y - 1 } else { y }; let era = if y >= 0 { y } else { y - 399 } / 400; let yoe = y - era * 400; let doy = (153 * (if m > 2 { m - 3 } else { m + 9 }) + 2) / 5 + d - 1; let doe = yoe * 365 + yoe / 4 - yoe / 100 + doy; era * 146097 + doe - 719468 }
fn is_leap(y: i64) -> bool { (y % 4 == 0 && y % 100 != 0) || y % 400 == 0 }
fn dim(y: i64, m: i64) -> i64 { match m { 1|3|5|7|8|10|12 => 31, 4|6|9|11 => 30, _ => if is_leap(y) {29} else {28} } }
const SCALES: [TimeScale; 9] = [TimeScale::TAI, TimeScale::TT, TimeScale::ET, TimeScale::TDB, TimeScale::UTC, TimeScale::GPST, TimeScale::GST, TimeScale::BDT, TimeScale::QZSST];
fn ref_days(ts: TimeScale) -> (i64, i128) { match ts { TimeScale::TAI|TimeScale::TT|TimeScale::UTC => (days_from_civil(1900,1,1), 0), TimeScale::ET|TimeScale::TDB => (days_from_civil(2000,1,1), 43_200_000_000_000), TimeScale::GPST|TimeScale::QZSST => (days_from_civil(1980,1,6),0), TimeScale::GST => (days_from_civil(1999,8,22),0), TimeScale::BDT => (days_from_civil(2006,1,1),0), _ => unreachable!() } }
fn main() {
    let mut fails = std::collections::BTreeMap::<String, (u64, String)>::new();
    let mut rec = |k: String, s: String| { let e = fails.entry(k).or_insert((0, s)); e.0 += 1; };
    std::panic::set_hook(Box::new(|_| {}));
    let mut n = 0u64;
    for y in -30000i64..=30000 {
        if !(1..=9999).contains(&y) && y % 97 != 0 { continue; }
        for m in 1..=12 { for d in 1..=dim(y,m) {
            for (h,mi,s,ns) in [(0u8,0u8,0u8,0u32),(23,59,59,999_999_999),(12,34,56,1)] {
              for ts in SCALES { if ts != TimeScale::TAI && ts != TimeScale::ET && ts != TimeScale::BDT && (d != 1 && d != dim(y,m)) { continue; }
                n += 1;
                let (rd, rns) = ref_days(ts);
                let want: i128 = (days_from_civil(y,m,d) - rd) as i128 * 86_400_000_000_000 + h as i128 * 3_600_000_000_000 + mi as i128 * 60_000_000_000 + s as i128 * 1_000_000_000 + ns as i128 - rns;
                match std::panic::catch_unwind(|| Epoch::maybe_from_gregorian(y as i32, m as u8, d as u8, h, mi, s, ns, ts)) {
                    Ok(Ok(e)) => { if model(e.duration) != want || e.time_scale != ts { rec(format!("from_greg wrong {ts:?}"), format!("{y}-{m}-{d} got {} want {}", model(e.duration), want)); } }
                    Ok(Err(e)) => rec("from_greg rejects valid".into(), format!("{y}-{m}-{d} {e:?}")),
                    Err(_) => rec("from_greg panic".into(), format!("{y}-{m}-{d}")),
                }
                let era = if y < 1 { "y<1" } else if y < 400 {"1..400"} else if y < 1900 { "400..1900" } else if y < 4900 { "1900..4900" } else if y <= 9999 { "4900..9999" } else { ">9999" };
                match std::panic::catch_unwind(|| Epoch::from_duration(Duration::from_total_nanoseconds(want), ts).to_gregorian_str(ts)) {
                    Ok(st) => { let exp = if ns == 0 { format!("{:04}-{:02}-{:02}T{:02}:{:02}:{:02} {}", y,m,d,h,mi,s,ts) } else { format!("{:04}-{:02}-{:02}T{:02}:{:02}:{:02}.{:09} {}", y,m,d,h,mi,s,ns,ts) };
                        if st != exp { rec(format!("to_greg wrong {era} {}", if ns==0 {"midnight"} else if ns==1 {"midday"} else {"lastns"}), format!("{ts:?} want {exp} got {st}")); } }
                    Err(_) => rec(format!("to_greg panic {era}"), format!("{y}-{m}-{d} {ts:?}")) }
              }
            }
        }}
    }
    println!("evaluated {n}");
    for (k, (n, s)) in fails { println!("{k}: {n}  e.g. {s}"); }
}

use hifitime::*;
use std::str::FromStr;
const NPC: i128 = 3_155_760_000_000_000_000;
const S: i128 = 1_000_000_000;
const DAY: i128 = 86400 * S;
fn model(d: Duration) -> i128 { let (c, n) = d.to_parts(); c as i128 * NPC + n as i128 }
fn dur(ns: i128) -> Duration { let c = ns.div_euclid(NPC); let n = ns.rem_euclid(NPC); Duration::from_parts(c as i16, n as u64) }
struct Rng(u64);
impl Rng { fn next(&mut self) -> u64 { self.0 ^= self.0 << 13; self.0 ^= self.0 >> 7; self.0 ^= self.0 << 17; self.0 } }
const UNITS: [(Unit, i128); 9] = [(Unit::Nanosecond,1),(Unit::Microsecond,1000),(Unit::Millisecond,1_000_000),(Unit::Second,1_000_000_000),(Unit::Minute,60_000_000_000),(Unit::Hour,3_600_000_000_000),(Unit::Day,86_400_000_000_000),(Unit::Week,604_800_000_000_000),(Unit::Century,NPC)];
fn main() {
    let mut r = Rng(0x1234_5678_9abc_def1);
    let mut fails = std::collections::BTreeMap::<String, (u64, String)>::new();
    let mut rec = |k: String, s: String| { let e = fails.entry(k).or_insert((0, s)); e.0 += 1; };
    std::panic::set_hook(Box::new(|_| {}));
    let tenk: i128 = 10_000 * 365 * DAY + 2425 * DAY;
    for _ in 0..1_000_000u64 {
        let bits = r.next() % 69;
        let mut ns: i128 = ((r.next() as u128) << 64 | r.next() as u128) as i128 & ((1i128 << bits) - 1);
        if r.next() % 2 == 0 { let (_, f) = UNITS[(r.next() % 8) as usize]; ns = (ns / f) * f + (r.next() % 5) as i128 - 2; }
        ns = ns.rem_euclid(tenk);
        if r.next() % 2 == 0 { ns = -ns; }
        let d = dur(ns);
        let mag = ns.abs();
        match std::panic::catch_unwind(|| d.decompose()) { Ok((s, dd, h, m, sec, ms, us, n)) => {
            let sum = dd as i128 * DAY + h as i128 * 3600*S + m as i128 * 60*S + sec as i128 * S + ms as i128 * 1_000_000 + us as i128 * 1000 + n as i128;
            let ok = sum == mag && h < 24 && m < 60 && sec < 60 && ms < 1000 && us < 1000 && n < 1000 && ((s < 0) == (ns < 0));
            if !ok { rec("decompose".into(), format!("{ns} -> {:?} sum {sum}", (s,dd,h,m,sec,ms,us,n))); }
        }, Err(_) => rec("decompose_panic".into(), format!("{ns}")) }
        match std::panic::catch_unwind(|| { let s = format!("{d}"); (s.clone(), Duration::from_str(&s)) }) { Ok((s, p)) => match p { Ok(p) => if model(p) != ns { rec("display_parse".into(), format!("{ns} -> '{s}' -> {}", model(p))); }, Err(e) => rec("display_parse_err".into(), format!("{ns} '{s}' {e:?}")) }, Err(_) => rec("display_panic".into(), format!("{ns}")) }
        let js = serde_json::to_string(&d).unwrap(); match serde_json::from_str::<Duration>(&js) { Ok(p) => if model(p) != ns { rec("serde".into(), format!("{ns} {js}")); }, Err(e) => rec("serde err".into(), format!("{ns} {js} {e}")) }
    }
    // weekday
    for w in 0u8..7 { for k in 0u16..256 { let k = k as u8; let wd = Weekday::from(w);
        match std::panic::catch_unwind(|| wd + k) { Ok(x) => if u8::from(x) != ((w as u16 + k as u16) % 7) as u8 { rec("wd add wrong".into(), format!("{wd:?}+{k}={x:?}")); }, Err(_) => rec("wd add panic".into(), format!("{wd:?}+{k}")) }
        match std::panic::catch_unwind(|| wd - k) { Ok(x) => if u8::from(x) != ((w as i32 - k as i32).rem_euclid(7)) as u8 { rec("wd sub wrong".into(), format!("{wd:?}-{k}={x:?}")); }, Err(_) => rec("wd sub panic".into(), format!("{wd:?}-{k}")) }
    }}
    for _ in 0..1_000_000 {
        let day = ((r.next() % 5_000_000) as i128) - 700_000;
        let tod: i128 = match r.next() % 6 { 0 => 0, 1 => DAY - 1, 2 => 1, 3 => DAY - 1 - (r.next() % 100_000) as i128, _ => (r.next() % DAY as u64) as i128 };
        let ns = day * DAY + tod;
        let e = Epoch::from_duration(dur(ns), TimeScale::TAI);
        let want = day.rem_euclid(7) as u8;
        match std::panic::catch_unwind(|| e.weekday()) { Ok(w) => if u8::from(w) != want { rec("weekday".into(), format!("day {day} tod {tod} got {w:?} want {want}")); }, Err(_) => rec("weekday panic".into(), format!("{ns}")) }
        let g = Epoch::from_duration(dur(-ns), TimeScale::TAI);
        if ns != 0 && g == e { rec("eq symmetric".into(), format!("{ns}")); }
    }
    for s in ["1994-11-05T08:15:30+10:00", "1994-11-05T08:15:30-12:30", "1994-11-05T08:15:30-23:59"] { println!("{s} -> {:?}", Epoch::from_str(s).map(|e| format!("{e}"))); }
    println!("{:?}", hifitime::efmt::consts::RFC3339.parse("1994-11-05T08:15:30.0+10:00").map(|e| format!("{e}")));
    for (k, (n, s)) in fails { println!("{k}: {n}  e.g. {s}"); }
    println!("done");
}

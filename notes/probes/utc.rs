use hifitime::*;
const NPC: i128 = 3_155_760_000_000_000_000;
const S: i128 = 1_000_000_000;
fn model(d: Duration) -> i128 { let (c, n) = d.to_parts(); c as i128 * NPC + n as i128 }
fn dur(ns: i128) -> Duration { let c = ns.div_euclid(NPC); let n = ns.rem_euclid(NPC); Duration::from_parts(c as i16, n as u64) }
struct Rng(u64);
impl Rng { fn next(&mut self) -> u64 { self.0 ^= self.0 << 13; self.0 ^= self.0 >> 7; self.0 ^= self.0 << 17; self.0 } }
fn main() {
    let table: Vec<(i128, i128)> = std::fs::read_to_string("/repo/data/leap-seconds.list").unwrap().lines().filter(|l| !l.starts_with('#') && !l.trim().is_empty()).map(|l| { let mut it = l.split_whitespace(); (it.next().unwrap().parse::<i128>().unwrap(), it.next().unwrap().parse::<i128>().unwrap()) }).collect();
    let off_utc = |u_ns: i128| -> i128 { let mut o = 0; for (t, d) in &table { if u_ns >= t * S { o = *d; } } o };
    // inverse: Some(u) if in image, None + (lo,hi) if in gap
    let inv = |t_ns: i128| -> Result<i128, (i128, i128)> { let mut prev = 0i128; let mut res = Ok(t_ns); for (ts, d) in &table { let a = ts * S + prev * S; let b = ts * S + d * S; if t_ns >= b { res = Ok(t_ns - d * S); } else if t_ns >= a { res = Err((ts * S - (d - prev) * S, ts * S + (d - prev) * S)); } prev = *d; } res };
    let mut r = Rng(0x1234_5678_9abc_def1);
    let mut fails = std::collections::BTreeMap::<String, (u64, String)>::new();
    let mut rec = |k: String, s: String| { let e = fails.entry(k).or_insert((0, s)); e.0 += 1; };
    std::panic::set_hook(Box::new(|_| {}));
    let mut gaps = 0u64;
    for i in 0..3_000_000u64 {
        let (t, d) = table[(r.next() % 28) as usize];
        let delta: i128 = match r.next() % 5 { 0 => (r.next() % 80) as i128 * S - 40 * S + (r.next()% (S as u64)) as i128, 1 => (r.next()%2001) as i128 - 1000, 2 => ((r.next()%81) as i128 - 40) * S + (r.next()%3) as i128 - 1, 3 => (r.next() % (400*86400)) as i128 * S, _ => -((r.next() % (400*86400)) as i128 * S) - (r.next() % S as u64) as i128 };
        let mut u = t * S + delta;
        if i % 50 == 0 { u = -(u % (60*NPC/100)); }
        let e = Epoch::from_duration(dur(u), TimeScale::UTC);
        let tai = e.to_time_scale(TimeScale::TAI);
        let want = u + off_utc(u) * S;
        if model(tai.duration) != want { rec("utc->tai".into(), format!("u={u} (entry {t} {d} delta {delta}) got {} want {want}", model(tai.duration))); }
        let back = tai.to_time_scale(TimeScale::UTC);
        if model(back.duration) != u { rec("utc->tai->utc".into(), format!("u={u} (entry {t} {d} delta {delta}) back {}", model(back.duration))); }
        // TAI -> UTC directly at u (as TAI count)
        let tt = u; let got = model(Epoch::from_duration(dur(tt), TimeScale::TAI).to_time_scale(TimeScale::UTC).duration);
        match inv(tt) { Ok(w) => if got != w { rec("tai->utc image".into(), format!("t={tt} got {got} want {w}")); }, Err((lo, hi)) => { gaps += 1; if !(got >= lo && got < hi) { rec("tai->utc gap".into(), format!("t={tt} got {got} not in [{lo},{hi})")); } } }
    }
    println!("gap instants {gaps}");
    for (k, (n, s)) in fails { println!("{k}: {n}  e.g. {s}"); }
}

use hifitime::*;
use hifitime::efmt::{Format, Formatter, consts::*};
use std::str::FromStr;
const NPC: i128 = 3_155_760_000_000_000_000;
const S: i128 = 1_000_000_000;
const DAY: i128 = 86400 * S;
fn dur(ns: i128) -> Duration { let c = ns.div_euclid(NPC); let n = ns.rem_euclid(NPC); Duration::from_parts(c as i16, n as u64) }
struct Rng(u64);
impl Rng { fn next(&mut self) -> u64 { self.0 ^= self.0 << 13; self.0 ^= self.0 >> 7; self.0 ^= self.0 << 17; self.0 } }
fn days_from_civil(y: i64, m: i64, d: i64) -> i64 { let y = if m <= 2 { y - 1 } else { y }; let era = if y >= 0 { y } else { y - 399 } / 400; let yoe = y - era * 400; let doy = (153 * (if m > 2 { m - 3 } else { m + 9 }) + 2) / 5 + d - 1; let doe = yoe * 365 + yoe / 4 - yoe / 100 + doy; era * 146097 + doe - 719468 }
fn civil_from_days(z: i64) -> (i64, i64, i64) { let z = z + 719468; let era = if z >= 0 { z } else { z - 146096 } / 146097; let doe = z - era * 146097; let yoe = (doe - doe / 1460 + doe / 36524 - doe / 146096) / 365; let y = yoe + era * 400; let doy = doe - (365 * yoe + yoe / 4 - yoe / 100); let mp = (5 * doy + 2) / 153; let d = doy - (153 * mp + 2) / 5 + 1; let m = if mp < 10 { mp + 3 } else { mp - 9 }; (if m <= 2 { y + 1 } else { y }, m, d) }
const SCALES: [TimeScale; 9] = [TimeScale::TAI, TimeScale::TT, TimeScale::ET, TimeScale::TDB, TimeScale::UTC, TimeScale::GPST, TimeScale::GST, TimeScale::BDT, TimeScale::QZSST];
fn ref_ns(ts: TimeScale) -> i128 { let d1900 = days_from_civil(1900,1,1); (match ts { TimeScale::TAI|TimeScale::TT|TimeScale::UTC => 0, TimeScale::ET|TimeScale::TDB => (days_from_civil(2000,1,1)-d1900) as i128 * DAY + DAY/2, TimeScale::GPST|TimeScale::QZSST => (days_from_civil(1980,1,6)-d1900) as i128*DAY, TimeScale::GST => (days_from_civil(1999,8,22)-d1900) as i128*DAY, TimeScale::BDT => (days_from_civil(2006,1,1)-d1900) as i128*DAY, _ => unreachable!() }) }
const MON: [&str;12] = ["January","February","March","April","May","June","July","August","September","October","November","December"];
const WD: [&str;7] = ["Monday","Tuesday","Wednesday","Thursday","Friday","Saturday","Sunday"];
fn main() {
    std::panic::set_hook(Box::new(|_| {}));
    let mut r = Rng(0x9e3779b97f4a7c15);
    let mut fails = std::collections::BTreeMap::<String, (u64, String)>::new();
    let mut rec = |k: String, s: String| { let e = fails.entry(k).or_insert((0, s)); e.0 += 1; };
    let d1900 = days_from_civil(1900,1,1);
    let toks = ["Y","m","d","H","M","S","f","j","A","a","B","b","T","z"];
    let seps: Vec<char> = (0x20u8..0x7f).map(|b| b as char).filter(|c| *c != '%' && *c != '?').collect();
    let mut n_ok = 0u64;
    for _ in 0..300_000 {
        let ts = SCALES[(r.next()%9) as usize];
        let y = 1901 + (r.next()%1400) as i64; let mo = 1 + (r.next()%12) as i64; let d = 1 + (r.next()%28) as i64;
        let tod = ((2 + r.next()%20) as i128 * 3600 + (r.next()%3600) as i128) * S + (r.next()%S as u64) as i128;
        let label = (days_from_civil(y,mo,d) - d1900) as i128 * DAY + tod;
        let e = Epoch::from_duration(dur(label - ref_ns(ts)), ts);
        let use_off = r.next()%3==0; let off = if use_off { ((r.next()%(2*1439+1)) as i128 - 1439) * 60 * S } else { 0 };
        let lab2 = label + off; let dn = lab2.div_euclid(DAY) as i64; let t2 = lab2.rem_euclid(DAY);
        let (yy, mm, dd) = civil_from_days(dn + d1900);
        let (hh, mi, ss, nn) = (t2 / (3600*S), t2 / (60*S) % 60, t2 / S % 60, t2 % S);
        let doy = dn + d1900 - days_from_civil(yy,1,1) + 1;
        let wd = dn.rem_euclid(7) as usize;
        let nt = 1 + (r.next()%16) as usize;
        let mut f = String::new(); let mut exp = String::new(); let mut has_greg = false; let mut tl = vec![];
        for i in 0..nt { let t = toks[(r.next()%toks.len() as u64) as usize]; tl.push(t); f.push('%'); f.push_str(t);
            if !matches!(t, "T"|"j"|"A"|"a") { has_greg = true; }
            exp.push_str(&match t { "Y" => format!("{yy:04}"), "m" => format!("{mm:02}"), "d" => format!("{dd:02}"), "H" => format!("{hh:02}"), "M" => format!("{mi:02}"), "S" => format!("{ss:02}"), "f" => format!("{nn:09}"), "j" => format!("{doy:03}"), "A" => WD[wd].to_string(), "a" => WD[wd][..3].to_string(), "B" => MON[mm as usize -1].to_string(), "b" => MON[mm as usize-1][..3].to_string(), "T" => format!("{ts}"), "z" => { let o = off.abs() / (60*S); format!("{}{:02}:{:02}", if off < 0 {'-'} else {'+'}, o/60, o%60) }, _ => unreachable!() });
            if i + 1 < nt { let ns = r.next()%3; for _ in 0..ns { let c = seps[(r.next()%seps.len() as u64) as usize]; f.push(c); exp.push(c); } } }
        let fmt = match Format::from_str(&f) { Ok(x) => x, Err(er) => { rec(format!("format err {er:?}"), f.clone()); continue; } };
        let got = std::panic::catch_unwind(|| if use_off { format!("{}", Formatter::with_timezone(e, dur(off), fmt)) } else { format!("{}", Formatter::new(e, fmt)) });
        let kind = format!("{} {}", if has_greg {"greg"} else {"nogreg"}, if use_off {"off"} else {"nooff"});
        match got { Ok(g) => if g == exp { n_ok += 1 } else {
              // diagnose: which token class
              let cls = if !has_greg { "nogreg".to_string() } else if tl.iter().any(|t| *t=="A"||*t=="a") && g.replace(WD[(wd+1)%7], "X").len() != g.len() { "weekday".into() } else { "other".into() };
              rec(format!("render mismatch {kind} {cls} {ts:?}"), format!("{f:?} e={e} off={off} got {g:?} want {exp:?}")); },
            Err(_) => rec(format!("render panic {kind}"), f.clone()) }
    }
    println!("ok {n_ok}");
    for (k, (n, s)) in fails.iter().take(40) { println!("{k}: {n}  e.g. {s}"); }
    // constants
    for (name, c, s) in [("ISO8601", ISO8601, "%Y-%m-%dT%H:%M:%S.%f %T"), ("ISO8601_FLEX", ISO8601_FLEX, "%Y-%m-%dT%H:%M:%S.%f? %T?"), ("RFC3339", RFC3339, "%Y-%m-%dT%H:%M:%S.%f%z"), ("RFC3339_FLEX", RFC3339_FLEX, "%Y-%m-%dT%H:%M:%S.%f?%z"), ("ISO8601_DATE", ISO8601_DATE, "%Y-%m-%d"), ("ISO8601_ORDINAL", ISO8601_ORDINAL, "%Y-%j"), ("RFC2822", RFC2822, "%a, %d %b %Y %H:%M:%S"), ("RFC2822_LONG", RFC2822_LONG, "%A, %d %B %Y %H:%M:%S"), ("ISO8601_STD", ISO8601_STD, "%Y-%m-%dT%H:%M:%S.%f"), ("ISO8601_STD sp", ISO8601_STD, "%Y-%m-%dT%H:%M:%S.%f ")] { println!("{name}: from_str == const? {}   debug {:?}", Format::from_str(s).unwrap() == c, c); }
}

use hifitime::*;
const NPC: i128 = 3_155_760_000_000_000_000;
const MINN: i128 = -32768 * NPC;
const MAXN: i128 = 32767 * NPC + NPC;
fn clamp(x: i128) -> i128 { x.max(MINN).min(MAXN) }
fn model(d: Duration) -> i128 { let (c, n) = d.to_parts(); c as i128 * NPC + n as i128 }
struct Rng(u64);
impl Rng { fn next(&mut self) -> u64 { self.0 ^= self.0 << 13; self.0 ^= self.0 >> 7; self.0 ^= self.0 << 17; self.0 }
  fn dur(&mut self) -> Duration {
    let k = self.next() % 8;
    let c: i16 = match k { 0 => (self.next() % 7) as i16 - 3, 1 => i16::MIN + (self.next()%3) as i16, 2 => i16::MAX - (self.next()%3) as i16, _ => self.next() as i16 };
    let n: u64 = match self.next() % 6 { 0 => self.next() % 4, 1 => (NPC as u64) - (self.next() % 4), 2 => (NPC as u64) + (self.next()%4), 3 => self.next(), _ => self.next() % (NPC as u64) };
    Duration::from_parts(c, n)
  }
}
const UNITS: [(Unit, i128); 9] = [(Unit::Nanosecond,1),(Unit::Microsecond,1000),(Unit::Millisecond,1_000_000),(Unit::Second,1_000_000_000),(Unit::Minute,60_000_000_000),(Unit::Hour,3_600_000_000_000),(Unit::Day,86_400_000_000_000),(Unit::Week,604_800_000_000_000),(Unit::Century,NPC)];
fn main() {
    let mut r = Rng(0x1234_5678_9abc_def1);
    let mut fails = std::collections::BTreeMap::<String, (u64, String)>::new();
    let mut rec = |k: &str, s: String| { let e = fails.entry(k.to_string()).or_insert((0, s)); e.0 += 1; };
    std::panic::set_hook(Box::new(|_| {}));
    for _ in 0..2_000_000 {
        let a = r.dur(); let b = r.dur();
        let (ma, mb) = (model(a), model(b));
        let (c, n) = a.to_parts();
        if !( (n as i128) < NPC || (c == i16::MAX && n as i128 == NPC)) { rec("canon", format!("{:?}", a)); }
        if a.total_nanoseconds() != ma { rec("total_ns", format!("{:?} got {} want {}", a.to_parts(), a.total_nanoseconds(), ma)); }
        if model(Duration::from_total_nanoseconds(ma)) != ma { rec("from_total", format!("{:?}", a.to_parts())); }
        macro_rules! chk { ($name:expr, $e:expr, $want:expr) => { match std::panic::catch_unwind(|| $e) { Ok(s) => if model(s) != $want { rec($name, format!("{:?} {:?} -> {:?} want {}", a.to_parts(), b.to_parts(), s.to_parts(), $want)); }, Err(_) => rec(concat!($name, "_panic"), format!("{:?} {:?}", a.to_parts(), b.to_parts())) } } }
        chk!("add", a + b, clamp(ma + mb)); chk!("sub", a - b, clamp(ma - mb)); chk!("neg", -a, clamp(-ma)); chk!("abs", a.abs(), clamp(ma.abs()));
        let q: i64 = match r.next() % 5 { 0 => (r.next() % 21) as i64 - 10, 1 => r.next() as i64, 2 => (r.next() % 100000) as i64 - 50000, 3 => if r.next()%2==0 { i64::MIN } else { i64::MAX }, _ => (r.next() as i64) >> (r.next()%64) };
        chk!("mul", a * q, clamp(ma.saturating_mul(q as i128))); chk!("mul_rev", q * a, clamp(ma.saturating_mul(q as i128)));
        if q != 0 { chk!("div", a / q, clamp(ma / (q as i128))); }
        if (a < b) != (ma < mb) || (a.cmp(&b) != ma.cmp(&mb)) { rec("ord", format!("{:?} {:?}", a.to_parts(), b.to_parts())); }
        if (a == b) && ma != mb && !(ma == -mb && ma.abs() <= NPC) { rec("eq_diff_mag", format!("{:?} {:?}", a.to_parts(), b.to_parts())); }
        if ma == mb && !(a == b) { rec("eq_same", format!("{:?} {:?}", a.to_parts(), b.to_parts())); }
        if mb != 0 { let st = mb.abs(); let fl = ma.div_euclid(st) * st;
            chk!("floor", a.floor(b), clamp(fl)); if fl >= MINN { chk!("ceil", a.ceil(b), clamp(fl + st)); }
            let want = if ma - fl < (fl + st) - ma { fl } else { fl + st }; if fl >= MINN { chk!("round", a.round(b), clamp(want)); } }
        match a.try_truncated_nanoseconds() { Ok(v) => if v as i128 != ma { rec("try_trunc_wrong", format!("{:?} got {} want {}", a.to_parts(), v, ma)); }, Err(_) => if ma.abs() <= 2*NPC { rec("try_trunc_err_in_2c", format!("{:?}", a.to_parts())); } }
        let (u, f) = UNITS[(r.next() % 9) as usize];
        match std::panic::catch_unwind(|| q * u) { Ok(d) => { let want = clamp(q as i128 * f); if model(d) != want { rec("unit_i64", format!("{} * {:?}", q, u)); } }, Err(_) => rec("unit_i64_panic", format!("{} {:?}", q, u)) }
    }
    for (k, (n, s)) in fails { println!("{k}: {n}  e.g. {s}"); }
    println!("done");
}

#![no_main]
use libfuzzer_sys::fuzz_target;
use std::str::FromStr;
use hifitime::*;
use hifitime::efmt::Format;
fuzz_target!(|data: &[u8]| {
    if data.is_empty() { return; }
    let sel = data[0] % 8;
    if let Ok(s) = std::str::from_utf8(&data[1..]) {
        match sel {
            0 => { let _ = Epoch::from_str(s); }
            1 => { let _ = Epoch::from_gregorian_str(s); }
            2 => { let _ = Duration::from_str(s); }
            3 => { let _ = Format::from_str(s); }
            4 => { if let Some((f, i)) = s.split_once('\u{1f}') { let _ = Epoch::from_format_str(i, f); } }
            5 => { let _ = TimeScale::from_str(s); let _ = Weekday::from_str(s); let _ = MonthName::from_str(s); }
            6 => { if let Some((f, i)) = s.split_once('\u{1f}') { if let Ok(fmt) = Format::from_str(f) { let _ = fmt.parse(i); let _ = Epoch::from_str_with_format(i, fmt); } } }
            _ => { let _ = hifitime::efmt::consts::RFC3339.parse(s); let _ = hifitime::efmt::consts::RFC2822.parse(s); let _ = hifitime::efmt::consts::ISO8601_ORDINAL.parse(s); }
        }
    }
});

#!/bin/bash
# Confirms a candidate seeded change in a scratch worktree (never in /repo):
#   1. the patch applies and the pinned baseline suite still passes with it,
#   2. the demonstration test fails with the change, 3. and passes without it.
# usage: confirm_mutant.sh <patch.diff> <demo.rs> ; prints CONFIRMED or NOT-CONFIRMED: <why>
set -u
PATCH="$(readlink -f "$1")"; DEMO="$(readlink -f "$2")"
WT="${CONFIRM_WT:-/tmp/wt/confirm}"
if [ ! -d "$WT" ]; then git -C /repo worktree add -q --detach "$WT" HEAD || exit 2; fi
cd "$WT" || exit 2
git checkout -q --detach "$(git -C /repo rev-parse HEAD)" 2>/dev/null
git checkout -q -- . ; git clean -fdq -e target
name="demo_confirm"
cp "$DEMO" "tests/$name.rs"
if ! git apply --check "$PATCH" 2>/dev/null; then echo "NOT-CONFIRMED: patch does not apply"; git clean -fdq -e target; exit 1; fi
# without the change: demo passes
if ! cargo test --offline --test $name >"$WT.clean.log" 2>&1; then echo "NOT-CONFIRMED: demo fails on the unchanged tree"; tail -5 "$WT.clean.log"; git clean -fdq -e target; exit 1; fi
git apply "$PATCH"
# with the change: suite passes (demo excluded), demo fails
rm -f "tests/$name.rs"
out=$(cargo nextest run --workspace --no-fail-fast --tool-config-file pb:/w/lib/nextest.toml --profile pb --test-threads 8 --offline 2>&1); rc=$?
sum=$(echo "$out" | grep -E "Summary" | tail -1)
if [ $rc -ne 0 ]; then echo "NOT-CONFIRMED: existing suite fails with the change: $sum"; echo "$out" | grep -E "FAIL|error" | head -5; git checkout -q -- .; git clean -fdq -e target; exit 1; fi
cp "$DEMO" "tests/$name.rs"
if cargo test --offline --test $name >"$WT.mut.log" 2>&1; then echo "NOT-CONFIRMED: demo passes with the change"; git checkout -q -- .; git clean -fdq -e target; exit 1; fi
git checkout -q -- .; git clean -fdq -e target
echo "CONFIRMED: suite passes with the change ($sum); demo fails with it and passes without"

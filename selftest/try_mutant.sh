#!/bin/bash
# Applies a seeded change to /repo, runs the given checks (quick tier), and undoes the change straight away.
# usage: try_mutant.sh <patch.diff> <ID> [<ID> ...]   ; prints one line per check: <ID> exit=<rc> [first VIOLATION line]
set -u
PATCH="$(readlink -f "$1")"; shift
if [ -n "$(git -C /repo status --porcelain --untracked-files=no)" ]; then echo "refusing: /repo has uncommitted changes"; exit 2; fi
git -C /repo apply "$PATCH" || { echo "patch does not apply to /repo"; exit 2; }
trap 'git -C /repo checkout -q -- .' EXIT
for id in "$@"; do
  out=$(cd /verif && VERIF_SEED=${VERIF_SEED:-0} ./check "$id" ${TIER:-quick} 2>/tmp/try_mutant.err); rc=$?
  v=$(echo "$out" | grep -m1 "^VIOLATION")
  echo "$id exit=$rc $v"
  if [ $rc -eq 1 ]; then grep -m1 -- "->" /tmp/try_mutant.err | cut -c1-300; fi
  if [ $rc -eq 2 ]; then tail -3 /tmp/try_mutant.err; fi
done

#!/bin/bash
# Applies a seeded change to /repo, runs the given checks (quick tier), and undoes the change straight away.
# usage: try_mutant.sh <patch.diff> <ID> [<ID> ...]   ; prints one line per check: <ID> exit=<rc> [first VIOLATION line]
set -u
# EVAL_REPO / EVAL_VERIF (default /repo and /verif) allow running in a private copy (a worktree of /repo and a
# copy of /verif whose harness/Cargo.toml points at that worktree) while /repo itself is in use.
PATCH="$(readlink -f "$1")"; shift
R="${EVAL_REPO:-/repo}"; V="${EVAL_VERIF:-/verif}"
export VERIF_REPO="$R"
if [ -n "$(git -C "$R" status --porcelain --untracked-files=no)" ]; then echo "refusing: $R has uncommitted changes"; exit 2; fi
git -C "$R" apply "$PATCH" || { echo "patch does not apply to $R"; exit 2; }
ERR=$(mktemp /tmp/try_mutant.XXXXXX.err)
trap 'git -C "$R" checkout -q -- .; rm -f "$ERR"' EXIT
for id in "$@"; do
  out=$(cd "$V" && VERIF_SEED=${VERIF_SEED:-0} ./check "$id" ${TIER:-quick} 2>"$ERR"); rc=$?
  v=$(echo "$out" | grep -m1 "^VIOLATION")
  echo "$id exit=$rc $v"
  if [ $rc -eq 1 ]; then grep -a -m1 -- "->" "$ERR" | cut -c1-300; fi
  if [ $rc -eq 2 ]; then tail -3 "$ERR"; fi
done

#!/usr/bin/env python3
"""Mechanical mutation sampling: a complement to the hand-made seeded changes of the sub-agents.

For a deterministic sample of single-token mutations of the library source (comparison boundary, arithmetic
operator, integer literal +-1, boolean connective, dropped negation, swapped min/max ...) the quick checks of the
properties anchored in the mutated file are run against the mutated tree (in a private worktree, never in /repo):

    killed      a check printed VIOLATION (which one, and the first message)
    survived    no relevant check fired; then the pinned 109-test suite is run:
                  suite-kills   the existing tests fail with the change (not a change of the kind the task asks about)
                  SURVIVOR      compiles, passes the tests, passes the checks -> to be triaged by hand: equivalent
                                mutant / outside the 20 statements / a gap of the checks
    nobuild     the mutant does not compile

usage: mutate.py <lane dir with repo/ and verif/> <out.jsonl> <k>/<n> [max]
The lane directory is prepared like /tmp/eval<k> (worktree of /repo + copy of /verif whose harness points at it).
"""
import json, os, re, subprocess, sys, hashlib, random

LANE, OUT, PART = sys.argv[1], sys.argv[2], sys.argv[3]
MAX = int(sys.argv[4]) if len(sys.argv) > 4 else 10**9
K, N = [int(x) for x in PART.split("/")]
REPO, VERIF = f"{LANE}/repo", f"{LANE}/verif"

# source file -> properties whose statement is anchored in it
FILES = {
    "src/duration/mod.rs": ["C01", "C02", "C03", "C11", "C14", "C18"],
    "src/duration/ops.rs": ["C01", "C03", "C18", "C02"],
    "src/duration/parse.rs": ["C11", "C13"],
    "src/duration/std.rs": ["C02", "C03"],
    "src/timeunits.rs": ["C02", "C01", "C18", "C03"],
    "src/epoch/mod.rs": ["C05", "C06", "C07", "C17", "C20", "C09", "C16", "C12", "C10", "C04"],
    "src/epoch/ops.rs": ["C04", "C12", "C14", "C16", "C05", "C15"],
    "src/epoch/gregorian.rs": ["C08", "C09", "C13", "C10", "C19"],
    "src/epoch/initializers.rs": ["C17", "C20", "C05", "C07", "C08"],
    "src/epoch/formatting.rs": ["C09", "C10", "C20", "C17"],
    "src/epoch/leap_seconds.rs": ["C06", "C08"],
    "src/epoch/leap_seconds_file.rs": ["C06"],
    "src/epoch/with_funcs.rs": ["C05", "C09"],
    "src/timescale/mod.rs": ["C05", "C08", "C09", "C10", "C20", "C13"],
    "src/timescale/fmt.rs": ["C09", "C10", "C13", "C19"],
    "src/efmt/format.rs": ["C19", "C13", "C10"],
    "src/efmt/formatter.rs": ["C19", "C10", "C09"],
    "src/efmt/consts.rs": ["C19", "C10"],
    "src/parser.rs": ["C13", "C10", "C19"],
    "src/weekday.rs": ["C16", "C13", "C19"],
    "src/month.rs": ["C09", "C13", "C19"],
    "src/timeseries.rs": ["C15"],
    "src/lib.rs": ["C05", "C17", "C07"],
}

# (regex, replacement) single-token mutations
OPS = [
    (r"(?<![<>=!\-])<=(?!=)", "<"), (r"(?<![<>=!\-])>=(?!=)", ">"),
    (r"(?<![<>=!\-:]) < (?![<=])", " <= "), (r"(?<![<>=!\-]) > (?![>=])", " >= "),
    (r" == ", " != "), (r" != ", " == "),
    (r" \+ ", " - "), (r" - ", " + "), (r" \* ", " / "), (r" / ", " * "), (r" % ", " / "),
    (r" \+= ", " -= "), (r" -= ", " += "),
    (r" && ", " || "), (r" \|\| ", " && "),
    (r"\bi64::MAX\b", "i64::MIN"), (r"\bmin\(", "max("), (r"\bmax\(", "min("),
    (r"\.rem_euclid\(", ".wrapping_rem("), (r"\.div_euclid\(", ".wrapping_div("),
    (r"\.floor\(\)", ".ceil()"), (r"\.ceil\(\)", ".floor()"), (r"\.round\(\)", ".floor()"),
    (r"\.saturating_", ".wrapping_"), (r"\.abs\(\)", ""),
    (r"\bif !", "if "), (r"\btrue\b", "false"), (r"\bfalse\b", "true"),
    (r"\.is_negative\(\)", ".is_positive()"), (r"\.is_some\(\)", ".is_none()"),
]
INT = re.compile(r"(?<![\w.])(\d[\d_]*)(?![\w.]|\.\d)")


def code_lines(path):
    """indices of lines that are library code: not comments, attributes, tests, kani / python gated items"""
    lines = open(path).read().split("\n")
    ok = []
    in_tests = False
    skip_item = 0  # brace depth bookkeeping for cfg(feature = "python") / cfg(kani) items
    depth_at_skip = None
    depth = 0
    pending_skip = False
    for i, l in enumerate(lines):
        s = l.strip()
        if s.startswith("#[cfg(test)]"):
            in_tests = True
        if in_tests:
            continue
        if re.search(r'#\[cfg\((feature = "python"|kani|feature = "ut1")', s) and "not(" not in s:
            pending_skip = True
        opens, closes = l.count("{"), l.count("}")
        if pending_skip and depth_at_skip is None and opens > 0 and not s.startswith("#"):
            depth_at_skip = depth
            pending_skip = False
        elif pending_skip and not s.startswith("#") and s.endswith(";"):
            pending_skip = False
            depth += opens - closes
            continue
        in_skip = depth_at_skip is not None
        depth += opens - closes
        if in_skip:
            if depth <= depth_at_skip:
                depth_at_skip = None
            continue
        if not s or s.startswith("//") or s.startswith("#[") or s.startswith("#!") or s.startswith("use ") or s.startswith("*") or s.startswith("/*"):
            continue
        if "assert!" in s or "debug_assert" in s or "unreachable!" in s:
            continue
        ok.append(i)
    return lines, ok


def mutants_of(path):
    lines, ok = code_lines(path)
    out = []
    for i in ok:
        l = lines[i]
        code = l.split("//")[0]
        for rx, rep in OPS:
            for m in re.finditer(rx, code):
                out.append((i, m.start(), m.end(), rep, f"{m.group(0).strip()} -> {rep.strip()}"))
        for m in INT.finditer(code):
            tok = m.group(1)
            try:
                v = int(tok.replace("_", ""))
            except ValueError:
                continue
            if '"' in code[: m.start()] and code[: m.start()].count('"') % 2 == 1:
                continue  # inside a string literal
            for nv in (v + 1, v - 1):
                if nv < 0:
                    continue
                out.append((i, m.start(), m.end(), str(nv), f"{tok} -> {nv}"))
    return lines, out


def sh(cmd, cwd=None, timeout=1800, env=None):
    e = dict(os.environ)
    e.update({"CARGO_NET_OFFLINE": "true", "VERIF_REPO": REPO, "VERIF_ROOT": VERIF, "VERIF_NO_EVIDENCE": "1"})
    if env:
        e.update(env)
    try:
        p = subprocess.run(cmd, shell=True, cwd=cwd, env=e, stdout=subprocess.PIPE, stderr=subprocess.STDOUT, timeout=timeout)
        return p.returncode, p.stdout.decode("utf-8", "replace")
    except subprocess.TimeoutExpired:
        return 124, "timeout"


def main():
    allm = []
    for f, props in FILES.items():
        lines, ms = mutants_of(f"{REPO}/{f}")
        for m in ms:
            allm.append((f, props, m))
    # deterministic order: hash of (file, line text, mutation)
    def key(x):
        f, _, (i, a, b, rep, d) = x
        return hashlib.sha256(f"{f}:{i}:{a}:{d}".encode()).hexdigest()
    allm.sort(key=key)
    mine = [x for j, x in enumerate(allm) if j % N == K][:MAX]
    print(f"{len(allm)} candidate mutants in {len(FILES)} files; this part runs {len(mine)}", flush=True)
    done = set()
    if os.path.exists(OUT):
        for l in open(OUT):
            try:
                done.add(json.loads(l)["id"])
            except Exception:
                pass
    for f, props, (i, a, b, rep, d) in mine:
        mid = key((f, props, (i, a, b, rep, d)))[:12]
        if mid in done:
            continue
        sh("git checkout -q -- .", cwd=REPO)
        path = f"{REPO}/{f}"
        lines = open(path).read().split("\n")
        orig = lines[i]
        lines[i] = orig[:a] + rep + orig[b:]
        open(path, "w").write("\n".join(lines))
        rec = {"id": mid, "file": f, "line": i + 1, "mutation": d, "before": orig.strip(), "after": lines[i].strip()}
        rc, out = sh("cargo build --release --offline 2>&1 | tail -3", cwd=f"{VERIF}/harness", timeout=900)
        if "error" in out and "Finished" not in out:
            rec["result"] = "nobuild"
        else:
            rec["result"] = "survived"
            for pid in props:
                rc, out = sh(f"timeout -k 5 600 {VERIF}/harness/target/release/hv run {pid} quick 2>&1", cwd=VERIF)
                if rc == 1:
                    msg = [l for l in out.split("\n") if "->" in l]
                    rec["result"] = "killed"
                    rec["by"] = pid
                    rec["message"] = (msg[0].strip()[:240] if msg else "")
                    break
                if rc not in (0, 1):
                    rec.setdefault("inconclusive", []).append(pid)
            if rec["result"] == "survived":
                rc, out = sh("cargo nextest run --workspace --no-fail-fast --tool-config-file pb:/w/lib/nextest.toml --profile pb --test-threads 8 --offline 2>&1 | tail -15", cwd=REPO, timeout=1200)
                summ = [l for l in out.split("\n") if "Summary" in l]
                ok = bool(summ) and "failed" not in summ[-1] and "109 passed" in summ[-1]
                rec["suite"] = summ[-1].strip() if summ else out[-200:]
                rec["result"] = "SURVIVOR" if ok else "suite-kills"
        sh("git checkout -q -- .", cwd=REPO)
        with open(OUT, "a") as fo:
            fo.write(json.dumps(rec) + "\n")
        print(rec["result"], f, i + 1, d, rec.get("by", ""), flush=True)


main()

#!/bin/bash
# Runs every seeded change of /verif/seeded against the quick check of its own property and writes
# /verif/seeded/RESULTS.md. Applies each patch to /repo and undoes it straight afterwards.
out=/verif/seeded/RESULTS.md
echo "| seeded change | check | exit | first violation (sub-check) |" > $out.tmp
echo "|---|---|---|---|" >> $out.tmp
for d in /verif/seeded/C*-m*/; do
  name=$(basename $d); id=${name%%-*}
  r=$(/verif/selftest/try_mutant.sh $d/patch.diff $id 2>/dev/null | grep -v "conda\|Conda\|PermissionError\|^$")
  rc=$(echo "$r" | head -1 | sed 's/.*exit=\([0-9]*\).*/\1/')
  v=$(echo "$r" | sed -n 2p | sed 's/^ *-> *//' | cut -c1-110 | tr '|' '/')
  echo "| $name | ./check $id quick | $rc | $v |" >> $out.tmp
  echo "$name $rc"
done
mv $out.tmp $out

#!/bin/bash
# Runs every seeded change of /verif/seeded (all rounds) against the quick check of its own property and
# writes /verif/seeded/RESULTS.md. Each patch is applied to the repository copy, the check is run, and the patch
# is undone straight afterwards (selftest/try_mutant.sh). With EVAL_REPO / EVAL_VERIF set the run happens in a
# private worktree of /repo and a copy of /verif (so /repo stays free for other work); by default in /repo itself.
# PART=k/n processes every n-th change starting at k (several copies can then share the work);
# `run_seeded.sh merge` assembles RESULTS.md from the parts.
out=/verif/seeded/RESULTS.md
R="${EVAL_REPO:-/repo}"
if [ "${1:-}" = "merge" ]; then
  {
  echo "Seeded changes against the quick check of their own property (seed ${VERIF_SEED:-0})."
  echo "Repository commit $(git -C /repo rev-parse --short HEAD), /verif commit $(git -C /verif rev-parse --short HEAD); run in private copies of both (selftest/run_seeded.sh, PART=k/n)."
  echo "exit 1 = VIOLATION reported (the change is caught); exit 0 = not caught by the quick check (see meta.json of that change for why)."
  echo
  echo "| seeded change | check | exit | first violation (sub-check) |"
  echo "|---|---|---|---|"
  cat /verif/seeded/RESULTS.part*.tmp | sort
  } > $out
  rm -f /verif/seeded/RESULTS.part*.tmp
  exit 0
fi
k=${PART%%/*}; n=${PART##*/}; k=${k:-0}; n=${n:-1}
part=/verif/seeded/RESULTS.part$k.tmp
: > $part
i=0
for d in /verif/seeded/C*-m*/ /verif/seeded/C*-r2m*/ /verif/seeded/C*-r3m*/ /verif/seeded/C*-r4m*/ /verif/seeded/C*-r5m*/ /verif/seeded/C*-r6m*/ /verif/seeded/C*-r7m*/; do
  i=$((i+1))
  [ $((i % n)) -eq $k ] || continue
  name=$(basename $d); id=${name%%-*}
  r=$(/verif/selftest/try_mutant.sh $d/patch.diff $id 2>/dev/null | grep -v "conda\|Conda\|PermissionError\|^$")
  rc=$(echo "$r" | head -1 | sed 's/.*exit=\([0-9]*\).*/\1/')
  v=$(echo "$r" | sed -n 2p | sed 's/^ *-> *//' | cut -c1-110 | tr '|' '/')
  echo "| $name | ./check $id quick | $rc | $v |" >> $part
  echo "$name $rc"
done
echo "PART $k/$n DONE"

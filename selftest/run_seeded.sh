#!/bin/bash
# Runs every seeded change of /verif/seeded (both rounds) against the quick check of its own property and
# writes /verif/seeded/RESULTS.md. Each patch is applied to the repository copy, the check is run, and the patch
# is undone straight afterwards (selftest/try_mutant.sh). With EVAL_REPO / EVAL_VERIF set the run happens in a
# private worktree of /repo and a copy of /verif (so /repo stays free for other work); by default in /repo itself.
out=/verif/seeded/RESULTS.md
R="${EVAL_REPO:-/repo}"
{
echo "Seeded changes against the quick check of their own property (seed ${VERIF_SEED:-0})."
echo "Repository commit $(git -C $R rev-parse --short HEAD), /verif commit $(git -C /verif rev-parse --short HEAD), run in $R."
echo
echo "| seeded change | check | exit | first violation (sub-check) |"
echo "|---|---|---|---|"
} > $out.tmp
for d in /verif/seeded/C*-m*/ /verif/seeded/C*-r2m*/ /verif/seeded/C*-r3m*/ /verif/seeded/C*-r4m*/; do
  name=$(basename $d); id=${name%%-*}
  r=$(/verif/selftest/try_mutant.sh $d/patch.diff $id 2>/dev/null | grep -v "conda\|Conda\|PermissionError\|^$")
  rc=$(echo "$r" | head -1 | sed 's/.*exit=\([0-9]*\).*/\1/')
  v=$(echo "$r" | sed -n 2p | sed 's/^ *-> *//' | cut -c1-110 | tr '|' '/')
  echo "| $name | ./check $id quick | $rc | $v |" >> $out.tmp
  echo "$name $rc"
done
mv $out.tmp $out

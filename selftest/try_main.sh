#!/bin/bash
# Applies a seeded change to /repo, runs whole quick checks with the main build only (no plain-profile run), undoes it.
# usage: try_main.sh <patch.diff> <ID> [<ID> ...]
set -u
PATCH="$(readlink -f "$1")"; shift
if [ -n "$(git -C /repo status --porcelain --untracked-files=no)" ]; then echo "refusing: /repo has uncommitted changes"; exit 2; fi
git -C /repo apply "$PATCH" || { echo "patch does not apply"; exit 2; }
trap 'git -C /repo checkout -q -- .; (cd /verif/harness && CARGO_NET_OFFLINE=true cargo build --release --offline >/dev/null 2>&1)' EXIT   # the binary is rebuilt against the clean tree afterwards
(cd /verif/harness && CARGO_NET_OFFLINE=true cargo build --release --offline 2>&1 | grep -E "^error" -A8)
for id in "$@"; do
  out=$(cd /verif/harness && VERIF_ROOT=/verif VERIF_NO_EVIDENCE=1 ./target/release/hv run "$id" quick 2>&1); rc=$?
  echo "$id exit=$rc $(echo "$out" | grep -a -m1 -- '->' | cut -c1-300)"
done

#!/bin/bash
# runs every quick check with the given seeds on the current tree; prints any non-zero exit
for seed in "$@"; do
  for p in 01 02 03 04 05 06 07 08 09 10 11 12 13 14 15 16 17 18 19 20; do
    out=$(cd /verif && VERIF_SEED=$seed ./check C$p ${TIER:-quick} 2>&1); rc=$?
    if [ $rc -ne 0 ]; then echo "seed=$seed C$p exit=$rc"; echo "$out" | grep -E "VIOLATION|->|INCONCLUSIVE" | head -5; else echo "seed=$seed C$p ok"; fi
  done
done

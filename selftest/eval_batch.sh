#!/bin/bash
# usage: eval_batch.sh <ID> [extra check ids...] : confirm and try every $MUT_DIR/<ID>/mN.diff (default /tmp/mut3)
# (honours EVAL_REPO / EVAL_VERIF, see try_mutant.sh)
ID=$1; shift
M=${MUT_DIR:-/tmp/mut3}
for n in 1 2 3; do
  P=$M/$ID/m$n.diff; D=$M/$ID/demo$n.rs
  [ -f "$P" ] || continue
  echo "=== $ID m$n"
  /verif/selftest/confirm_mutant.sh "$P" "$D" 2>&1 | tail -3
  /verif/selftest/try_mutant.sh "$P" $ID "$@" 2>&1 | grep -v "conda\|Conda\|PermissionError\|^$"
done

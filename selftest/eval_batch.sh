#!/bin/bash
# usage: eval_batch.sh <ID> [extra check ids...] : confirm and try every /tmp/mut/<ID>/mN.diff
ID=$1; shift
for n in 1 2 3; do
  P=/tmp/mut/$ID/m$n.diff; D=/tmp/mut/$ID/demo$n.rs
  [ -f "$P" ] || continue
  echo "=== $ID m$n"
  /verif/selftest/confirm_mutant.sh "$P" "$D" 2>&1 | tail -3
  /verif/selftest/try_mutant.sh "$P" $ID "$@" 2>&1 | grep -v "conda\|Conda\|PermissionError\|^$"
done

#!/bin/bash
# Applies a seeded change to /repo, runs single sub-checks (quick budget, main build only) and undoes the change.
# usage: try_sub.sh <patch.diff> <sub-check> [<sub-check> ...]   e.g. try_sub.sh seeded/C04-r6m3/patch.diff c04.chain
set -u
PATCH="$(readlink -f "$1")"; shift
if [ -n "$(git -C /repo status --porcelain --untracked-files=no)" ]; then echo "refusing: /repo has uncommitted changes"; exit 2; fi
git -C /repo apply "$PATCH" || { echo "patch does not apply"; exit 2; }
trap 'git -C /repo checkout -q -- .; (cd /verif/harness && CARGO_NET_OFFLINE=true cargo build --release --offline >/dev/null 2>&1)' EXIT   # the binary is rebuilt against the clean tree afterwards
(cd /verif/harness && CARGO_NET_OFFLINE=true cargo build --release --offline 2>&1 | grep -E "^error" -A8)
for s in "$@"; do
  id=$(echo "$s" | cut -c1-3 | tr c C)
  out=$(cd /verif/harness && VERIF_ROOT=/verif VERIF_NO_EVIDENCE=1 ./target/release/hv run "$id" quick --sub "$s" 2>&1); rc=$?
  echo "$s exit=$rc $(echo "$out" | grep -a -m1 -- '->' | cut -c1-260)"
done

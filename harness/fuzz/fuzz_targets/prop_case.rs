#![no_main]
use libfuzzer_sys::fuzz_target;

// Structured target for every property: byte 0 selects one of the generated sub-checks of the property named by
// HV_FUZZ_PROP, the remaining bytes are the random stream of that sub-check's proptest strategy (pass-through
// RNG). The semantic oracle and the known-finding gate are the sub-check's own; an unexplained failure panics
// with the oracle's message and the decoded case.
fuzz_target!(|data: &[u8]| {
    if let Err(m) = hv::fuzzentry::prop_case_env(data) {
        // (the panic hook is hv's quiet one here, so the message is printed explicitly)
        eprintln!("ORACLE: {}", m);
        std::process::abort();
    }
});

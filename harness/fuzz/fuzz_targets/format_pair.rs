#![no_main]
use libfuzzer_sys::fuzz_target;

// The semantic oracle is inside the target: a library panic aborts through libFuzzer's hook, an oracle
// failure is turned into a panic carrying the oracle's message.
fuzz_target!(|data: &[u8]| {
    if let Err(m) = hv::fuzzentry::format_pair(data) {
        panic!("ORACLE: {}", m);
    }
});

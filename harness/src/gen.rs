//! Shared proptest strategies. Sound first (documented input domains), then biased toward the
//! case splits of the code under test. No RNG other than proptest's.

use crate::model::*;
use hifitime::{Duration, Epoch};
use proptest::prelude::*;
use proptest::strategy::Union;
use serde::{Deserialize, Serialize};

pub type BS<T> = BoxedStrategy<T>;

/// weighted union helper
pub fn wunion<T: std::fmt::Debug + 'static>(v: Vec<(u32, BS<T>)>) -> BS<T> {
    Union::new_weighted(v).boxed()
}

/// An f64 carried by its bits so that cases hash / serialize exactly
#[derive(Clone, Copy, PartialEq, Eq, Hash, Serialize, Deserialize)]
pub struct Fl(pub u64);
impl Fl {
    pub fn v(self) -> f64 {
        f64::from_bits(self.0)
    }
    pub fn of(x: f64) -> Self {
        Fl(x.to_bits())
    }
}
impl std::fmt::Debug for Fl {
    fn fmt(&self, f: &mut std::fmt::Formatter<'_>) -> std::fmt::Result {
        write!(f, "{:e}[{:#018x}]", self.v(), self.0)
    }
}

/// raw constructor parts of a duration (possibly un-normalised nanoseconds)
#[derive(Clone, Copy, Debug, PartialEq, Eq, Hash, Serialize, Deserialize)]
pub struct Dur {
    pub c: i16,
    pub n: u64,
}

impl Dur {
    pub fn lib(&self) -> Duration {
        Duration::from_parts(self.c, self.n)
    }
    /// intended integer value, clamped
    pub fn intended(&self) -> i128 {
        clamp(self.c as i128 * NPC + self.n as i128)
    }
    pub fn of_count(x: i128) -> Dur {
        let x = clamp(x);
        if x == DMAX {
            Dur { c: i16::MAX, n: NPC as u64 }
        } else {
            Dur { c: x.div_euclid(NPC) as i16, n: x.rem_euclid(NPC) as u64 }
        }
    }
}

/// log-uniform magnitude in [1, 2^max_bits)
pub fn log_mag(max_bits: u32) -> BS<i128> {
    (0..max_bits, any::<u128>())
        .prop_map(|(e, r)| {
            let base = 1i128 << e;
            base + ((r >> 1) as i128 & (base - 1))
        })
        .boxed()
}

pub fn small_delta(k: i128) -> BS<i128> {
    (-k..=k).boxed()
}

pub fn edge_centuries() -> BS<i128> {
    prop_oneof![
        2 => (i16::MIN as i128..=i16::MAX as i128),
        3 => prop::sample::select(vec![-32768i128, -32767, -32766, -4, -3, -2, -1, 0, 1, 2, 3, 4, 32765, 32766, 32767, 32768]),
    ]
    .boxed()
}

/// signed nanosecond counts over the whole representable range, biased to the case splits
pub fn count_any() -> BS<i128> {
    wunion(vec![
        // k*NPC + delta
        (4, (edge_centuries(), small_delta(3)).prop_map(|(k, d)| clamp(k * NPC + d)).boxed()),
        // MIN + delta, MAX - delta
        (2, prop_oneof![(0i128..6), log_mag(70)].prop_map(|d| clamp(DMIN + d)).boxed()),
        (2, prop_oneof![(0i128..6), log_mag(70)].prop_map(|d| clamp(DMAX - d)).boxed()),
        // sign * log-uniform magnitude
        (4, (any::<bool>(), log_mag(78)).prop_map(|(s, m)| clamp(if s { -m } else { m })).boxed()),
        // multiple of a unit +- few ns
        (3, (0usize..9, any::<bool>(), log_mag(40), small_delta(3))
            .prop_map(|(u, s, k, d)| {
                let v = k.saturating_mul(UNIT_NS[u]);
                clamp(if s { -v } else { v } + d)
            })
            .boxed()),
        // i64 limits and +-2, +-3 centuries +- 3
        (2, (prop::sample::select(vec![i64::MIN as i128, i64::MAX as i128, 2 * NPC, -2 * NPC, 3 * NPC, -3 * NPC, NPC, -NPC, 0]), small_delta(3))
            .prop_map(|(b, d)| clamp(b + d))
            .boxed()),
        // uniform over the full range
        (1, (DMIN..=DMAX).boxed()),
        // +-2^k +- a few ns: where integer widths (2^31, 2^32, 2^53, 2^63, 2^64 ...) change hands
        (2, pow2_near(78, 3)),
    ])
}

/// +-2^k + d with k < max_bits and |d| <= spread (ns)
pub fn pow2_near(max_bits: u32, spread: i128) -> BS<i128> {
    (0..max_bits, any::<bool>(), -spread..=spread).prop_map(|(k, s, d)| clamp((if s { -(1i128 << k) } else { 1i128 << k }) + d)).boxed()
}

/// durations as constructor parts: canonical parts of `count_any` plus raw (i16, u64) pairs
pub fn dur_any() -> BS<Dur> {
    wunion(vec![
        (6, count_any().prop_map(Dur::of_count).boxed()),
        (1, (any::<i16>(), any::<u64>()).prop_map(|(c, n)| Dur { c, n }).boxed()),
        (1, (edge_centuries(), 0u64..(NPC as u64)).prop_map(|(c, n)| Dur { c: c.clamp(-32768, 32767) as i16, n }).boxed()),
    ])
}

/// durations with canonical parts only
pub fn dur_canon() -> BS<Dur> {
    count_any().prop_map(Dur::of_count).boxed()
}

/// |count| <= 10 000 years, half snapped to a multiple of a unit +- few ns, a quarter > 104 days
pub fn count_human() -> BS<i128> {
    let max = 10_000i128 * 366 * NS_D;
    wunion(vec![
        (3, (any::<bool>(), log_mag(69)).prop_map(move |(s, m)| { let m = m % max; if s { -m } else { m } }).boxed()),
        (4, (0usize..7, any::<bool>(), log_mag(50), small_delta(3))
            .prop_map(move |(u, s, k, d)| {
                let v = (k.saturating_mul(UNIT_NS[u]) % max) / UNIT_NS[u] * UNIT_NS[u];
                (if s { -v } else { v }) + d
            })
            .boxed()),
        (2, (any::<bool>(), 104i128..3_652_425, 0i128..NS_D).prop_map(|(s, d, t)| { let v = d * NS_D + t; if s { -v } else { v } }).boxed()),
        (1, (-5i128..=5).boxed()),
        (1, (any::<bool>(), 0i128..1_000_000_000_000).prop_map(|(s, v)| if s { -v } else { v }).boxed()),
        // +-2^k +- a few ns (2^53: where a float stops holding every nanosecond count; 2^63, 2^64: integer widths)
        (1, pow2_near(68, 3)),
    ])
}

/// all i64 values, biased to small, powers of two, extremes
pub fn i64_any() -> BS<i64> {
    wunion(vec![
        (3, any::<i64>().boxed()),
        (3, (-10i64..=10).boxed()),
        (2, (0u32..63, any::<bool>(), -1i64..=1).prop_map(|(k, s, d)| { let v = (1i64 << k).wrapping_add(d); if s { v.wrapping_neg() } else { v } }).boxed()),
        (1, prop::sample::select(vec![i64::MIN, i64::MIN + 1, i64::MAX, i64::MAX - 1, 0, 1, -1]).boxed()),
        (2, (any::<bool>(), log_mag(63)).prop_map(|(s, m)| { let m = m as i64; if s { -m } else { m } }).boxed()),
    ])
}

// ------------------------------------------------------------------ epochs

/// an epoch given by scale index and canonical count in that scale
#[derive(Clone, Copy, Debug, PartialEq, Eq, Hash, Serialize, Deserialize)]
pub struct Ep {
    pub s: usize,
    pub c: i128,
}

impl Ep {
    pub fn lib(&self) -> Epoch {
        Epoch::from_duration(mk(self.c), SCALES[self.s])
    }
}

/// a time of day in which only the decomposition fields selected by `mask` (bit 0 hours, 1 minutes, 2 seconds,
/// 3 milliseconds, 4 microseconds, 5 nanoseconds) are non-zero, their values taken from `r`
pub fn tod_masked(mask: u8, r: u64) -> i128 {
    const W: [i128; 6] = [NS_H, NS_MIN, NS_S, 1_000_000, 1_000, 1];
    const N: [u64; 6] = [24, 60, 60, 1000, 1000, 1000];
    let mut t = 0i128;
    let mut r = r;
    for k in 0..6 {
        if mask & (1 << k) != 0 {
            let v = 1 + r % (N[k] - 1);
            r = r / N[k] ^ r.rotate_left(17);
            t += v as i128 * W[k];
        }
    }
    t
}

/// time of day classes (ns in [0, 86400e9))
pub fn tod_any() -> BS<i128> {
    wunion(vec![
        // only some of the fields h / min / s / ms / us / ns non-zero (e.g. 00:00:00.000250000)
        (2, (1u8..64, any::<u64>()).prop_map(|(m, r)| tod_masked(m, r)).boxed()),
        // the first and last 40 s of the day (where a date read on another axis - TAI vs UTC - is the next / previous day)
        (1, (0i128..40 * NS_S, any::<bool>()).prop_map(|(t, end)| if end { NS_D - 1 - t } else { t }).boxed()),
        // the same for the time left to the next midnight (what a count before a reference epoch decomposes into)
        (1, (1u8..64, any::<u64>()).prop_map(|(m, r)| NS_D - tod_masked(m, r)).boxed()),
        (2, Just(0i128).boxed()),
        (2, Just(NS_D - 1).boxed()),
        (1, (0i128..1000).boxed()),
        (1, (0i128..1000).prop_map(|d| NS_D - 1 - d).boxed()),
        (1, (0i128..86_400).prop_map(|s| s * NS_S).boxed()),
        (1, (0i128..86_400, prop::sample::select(vec![0i128, 1, 999_999_999, 500_000_000, 1_000, 999_999_000])).prop_map(|(s, f)| s * NS_S + f).boxed()),
        (3, (0i128..NS_D).boxed()),
    ])
}

/// day numbers (from 1900-01-01) of years 0001..=9999
pub fn day_0001_9999() -> BS<i64> {
    let (lo, hi) = day_range_0001_9999();
    wunion(vec![
        (4, (lo..=hi).boxed()),
        (2, (days_1900(1850, 1, 1)..=days_1900(2100, 1, 1)).boxed()),
        // year boundaries and leap days
        (2, (1i64..=9999, prop::sample::select(vec![(1u32, 1u32), (12, 31), (2, 28), (3, 1), (2, 29), (6, 30), (7, 1)]))
            .prop_map(|(y, (m, d))| {
                let d = d.min(month_len(y, m));
                days_1900(y, m, d)
            })
            .boxed()),
        (1, prop::sample::select(vec![lo, lo + 1, hi - 1, hi, 0, -1, 1, 36524, 36525]).boxed()),
    ])
}

/// ns since 1900-01-01T00:00:00 in some calendar, year 0001..=9999
pub fn ns1900_0001_9999() -> BS<i128> {
    (day_0001_9999(), tod_any()).prop_map(|(d, t)| d as i128 * NS_D + t).boxed()
}

/// all 28 leap entries as (UTC ns of the entry, dat before, dat after)
pub fn leap_entries_ns() -> Vec<(i128, i64, i64)> {
    let mut prev = 0;
    leap_table()
        .into_iter()
        .map(|(ts, dat)| {
            let r = (ts as i128 * NS_S, prev, dat);
            prev = dat;
            r
        })
        .collect()
}

/// offsets around a leap entry, ns resolution, within +-40 s
pub fn near_offset() -> BS<i128> {
    wunion(vec![
        (3, (-40i128..=40, -1i128..=1).prop_map(|(s, n)| s * NS_S + n).boxed()),
        (2, (-40 * NS_S..=40 * NS_S).boxed()),
        (2, (-1000i128..=1000).boxed()),
        (1, (-40i128..=40, -1000i128..=1000).prop_map(|(s, n)| s * NS_S + n).boxed()),
    ])
}

/// TAI-axis counts (ns from 1900 TAI) concentrated around interesting instants
pub fn tai_count_any() -> BS<i128> {
    let entries = leap_entries_ns();
    let n = entries.len();
    wunion(vec![
        // near a leap entry, on the UTC and on the TAI axis
        (3, (0..n, prop::sample::select(vec![0u8, 1, 2]), near_offset())
            .prop_map(move |(i, ax, off)| {
                let (ts, before, after) = entries[i];
                let sh = match ax { 0 => 0, 1 => before, _ => after } as i128 * NS_S;
                ts + sh + off
            })
            .boxed()),
        // near each scale's zero
        (2, (0usize..9, near_offset()).prop_map(|(s, off)| {
            let z = match s { S_ET | S_TDB => j2000_ns(), S_UTC => 0, _ => zero_tai_ns(s) };
            z + off
        }).boxed()),
        // the mirror image of each scale's zero about 1900 (a reading of -offset: where sign slips and
        // "equal up to sign" comparisons show)
        (1, (0usize..9, near_offset()).prop_map(|(s, off)| {
            let z = match s { S_ET | S_TDB => j2000_ns(), S_UTC => 0, _ => zero_tai_ns(s) };
            -z + off
        }).boxed()),
        // the mirror image about 1900 of each leap entry (UTC and TAI axis), +- 40 s
        (1, (0usize..28, any::<bool>(), near_offset()).prop_map(|(i, tai_axis, off)| {
            let (ts, _before, after) = leap_entries_ns()[i];
            -(ts + if tai_axis { after as i128 * NS_S } else { 0 }) + off
        }).boxed()),
        // a day of years 0001-9999 with time-of-day classes
        (4, ns1900_0001_9999()),
        // 1960-1972, before 1960
        (1, (days_1900(1958, 1, 1) as i128 * NS_D..days_1900(1972, 1, 2) as i128 * NS_D).boxed()),
        // century boundaries of the count
        (1, (-90i128..=90, small_delta(3)).prop_map(|(k, d)| k * NPC + d).boxed()),
        // +-2^k ns from 1900, +-40 s: where 64-bit nanosecond counts end (2^63 ns = 2192-04-11, 2^64 ns = 2484)
        (1, (40u32..70, any::<bool>(), near_offset()).prop_map(|(k, s, off)| (if s { -(1i128 << k) } else { 1i128 << k }) + off).boxed()),
        // within two days of a century boundary of the count (views shifted by a constant cross it elsewhere)
        (1, (-90i128..=90, -2 * NS_D..=2 * NS_D).prop_map(|(k, d)| k * NPC + d).boxed()),
        // sampled years to +-30 000
        (1, (-30_000i64..=30_000, 0i64..365, tod_any()).prop_map(|(y, doy, t)| (days_1900(y, 1, 1) + doy) as i128 * NS_D + t).boxed()),
    ])
}

/// epoch in any of the given scales, count derived from an interesting TAI-axis count by
/// re-using it directly as the scale's own count shifted to the scale's calendar
pub fn epoch_any(scales: &'static [usize]) -> BS<Ep> {
    (prop::sample::select(scales.to_vec()), tai_count_any(), any::<bool>())
        .prop_map(|(s, t, direct)| {
            // either interpret t as a reading of this scale's own calendar (ns from 1900 in the
            // scale) or as a TAI instant converted with the model
            let c = if direct || s == S_UTC {
                t - greg_offset_ns(s)
            } else {
                match s {
                    S_ET | S_TDB => t - j2000_ns(),
                    _ => t - zero_tai_ns(s),
                }
            };
            Ep { s, c }
        })
        .boxed()
}

pub const ALL_SCALES: [usize; 9] = [0, 1, 2, 3, 4, 5, 6, 7, 8];

// ------------------------------------------------------------------ floats

pub fn f64_any_finite() -> BS<Fl> {
    wunion(vec![
        (3, any::<u64>().prop_map(|b| { let x = f64::from_bits(b); if x.is_finite() { Fl(b) } else { Fl(b & !(1u64 << 52)) } }).boxed()),
        // integers and integers +- 1 ulp
        (3, (any::<bool>(), log_mag(64), -1i64..=1).prop_map(|(s, m, d)| {
            let x = m as f64;
            let b = (x.to_bits() as i64 + d) as u64;
            let x = f64::from_bits(b);
            Fl::of(if s { -x } else { x })
        }).boxed()),
        // decimal fractions
        (3, (any::<bool>(), 0u64..10_000_000_000_000_000, 0i32..18).prop_map(|(s, m, e)| {
            let txt = format!("{}e-{}", m, e);
            let x: f64 = txt.parse().unwrap();
            Fl::of(if s { -x } else { x })
        }).boxed()),
        // powers of two and ten
        (1, (any::<bool>(), -1074i32..1024).prop_map(|(s, e)| { let x = 2f64.powi(e); Fl::of(if s { -x } else { x }) }).boxed()),
        (1, (any::<bool>(), -320i32..309).prop_map(|(s, e)| { let x: f64 = format!("1e{}", e).parse().unwrap(); Fl::of(if s { -x } else { x }) }).boxed()),
        // small human numbers
        (2, (-100_000i64..=100_000, prop::sample::select(vec![1.0f64, 0.5, 0.25, 0.1, 0.001, 1e-6, 1e-9])).prop_map(|(k, f)| Fl::of(k as f64 * f)).boxed()),
        (1, prop::sample::select(vec![0.0f64, -0.0, f64::MIN_POSITIVE, f64::MAX, f64::MIN, f64::EPSILON, 9.223372036854775807e18, -9.223372036854775808e18, 1.7e38, 3.4e38]).prop_map(Fl::of).boxed()),
    ])
}

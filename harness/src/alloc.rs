//! A small thread-caching allocator for blocks up to 512 bytes. glibc's malloc serialises the 16 shard
//! threads on one arena lock in this sandbox (observed: every shard waiting on `main_arena` in realloc),
//! and the oracles format many short strings. Blocks are carved from 256 KiB chunks obtained from the
//! system allocator and recycled through per-thread free lists; they are never returned to the system.
//! Larger or over-aligned requests go straight to the system allocator.

use std::alloc::{GlobalAlloc, Layout, System};
use std::cell::Cell;
use std::ptr;

pub struct ShardAlloc;

const NCLASS: usize = 6;
const CLASS_SIZE: [usize; NCLASS] = [16, 32, 64, 128, 256, 512];
const CHUNK: usize = 256 * 1024;

thread_local! {
    static FREE: [Cell<*mut u8>; NCLASS] = const { [Cell::new(ptr::null_mut()), Cell::new(ptr::null_mut()), Cell::new(ptr::null_mut()), Cell::new(ptr::null_mut()), Cell::new(ptr::null_mut()), Cell::new(ptr::null_mut())] };
    static BUMP: Cell<(*mut u8, usize)> = const { Cell::new((ptr::null_mut(), 0)) };
}

#[inline]
fn class_of(layout: &Layout) -> Option<usize> {
    if layout.align() > 16 || layout.size() > 512 {
        return None;
    }
    let s = layout.size().max(1);
    Some(match s {
        0..=16 => 0,
        17..=32 => 1,
        33..=64 => 2,
        65..=128 => 3,
        129..=256 => 4,
        _ => 5,
    })
}

unsafe impl GlobalAlloc for ShardAlloc {
    #[inline]
    unsafe fn alloc(&self, layout: Layout) -> *mut u8 {
        let Some(k) = class_of(&layout) else {
            return System.alloc(layout);
        };
        FREE.with(|f| {
            let head = f[k].get();
            if !head.is_null() {
                // pop: the first word of a free block holds the next pointer
                let next = *(head as *mut *mut u8);
                f[k].set(next);
                return head;
            }
            BUMP.with(|b| {
                let (mut p, mut left) = b.get();
                let sz = CLASS_SIZE[k];
                if left < sz {
                    p = System.alloc(Layout::from_size_align_unchecked(CHUNK, 16));
                    if p.is_null() {
                        return p;
                    }
                    left = CHUNK;
                }
                b.set((p.add(sz), left - sz));
                p
            })
        })
    }

    #[inline]
    unsafe fn dealloc(&self, p: *mut u8, layout: Layout) {
        let Some(k) = class_of(&layout) else {
            return System.dealloc(p, layout);
        };
        FREE.with(|f| {
            *(p as *mut *mut u8) = f[k].get();
            f[k].set(p);
        });
    }

    #[inline]
    unsafe fn realloc(&self, p: *mut u8, layout: Layout, new_size: usize) -> *mut u8 {
        let new_layout = Layout::from_size_align_unchecked(new_size, layout.align());
        match (class_of(&layout), class_of(&new_layout)) {
            (Some(a), Some(b)) if a == b => p,
            (None, None) => System.realloc(p, layout, new_size),
            _ => {
                let q = self.alloc(new_layout);
                if !q.is_null() {
                    ptr::copy_nonoverlapping(p, q, layout.size().min(new_size));
                    self.dealloc(p, layout);
                }
                q
            }
        }
    }
}

use hv::engine::{install_quiet_panic_hook, Tier};
use hv::runner;

#[global_allocator]
static GLOBAL: hv::alloc::ShardAlloc = hv::alloc::ShardAlloc;

fn usage() -> ! {
    eprintln!("usage: hv run <ID> [quick|thorough] [--sub <name>] | hv replay <file> | hv list");
    std::process::exit(2);
}

fn main() {
    let args: Vec<String> = std::env::args().collect();
    if args.len() < 2 {
        usage();
    }
    install_quiet_panic_hook();
    let code = match args[1].as_str() {
        "run" => {
            if args.len() < 3 {
                usage();
            }
            let mut tier = match std::env::var("VERIF_TIER").ok().as_deref() {
                Some("thorough") => Some(Tier::Thorough),
                Some("quick") => Some(Tier::Quick),
                _ => None,
            };
            let mut only = None;
            let mut i = 3;
            let mut positional = None;
            while i < args.len() {
                match args[i].as_str() {
                    "quick" => positional = Some(Tier::Quick),
                    "thorough" => positional = Some(Tier::Thorough),
                    "--sub" => {
                        i += 1;
                        only = args.get(i).cloned();
                    }
                    _ => usage(),
                }
                i += 1;
            }
            if tier.is_none() {
                tier = positional;
            }
            runner::run_property(&args[2], tier.unwrap_or(Tier::Quick), only)
        }
        "replay" => {
            if args.len() < 3 {
                usage();
            }
            runner::replay_file(&args[2])
        }
        "fuzz-bytes" => {
            // hv fuzz-bytes <target> <file>: one input of a fuzz target through the same decoding and oracle
            if args.len() < 4 {
                usage();
            }
            let Some((_, _, f)) = hv::fuzzentry::TARGETS.iter().find(|t| t.0 == args[2]) else {
                eprintln!("unknown fuzz target {}", args[2]);
                std::process::exit(2);
            };
            let data = std::fs::read(&args[3]).expect("cannot read the input file");
            match f(&data) {
                Ok(()) => {
                    println!("ok");
                    0
                }
                Err(m) => {
                    println!("FAIL: {m}");
                    1
                }
            }
        }
        "list" => {
            for p in hv::props::all() {
                for s in (p.subs)() {
                    println!("{} {}", p.id, s.name());
                }
            }
            0
        }
        _ => usage(),
    };
    std::process::exit(code);
}

pub mod alloc;
pub mod binfmt;
pub mod engine;
pub mod fuzzentry;
pub mod gen;
pub mod model;
pub mod props;
pub mod runner;

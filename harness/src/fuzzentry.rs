//! Byte-level entry points shared by the libFuzzer targets (harness/fuzz) and by the `*.fuzz_bytes`
//! sub-checks of `hv`, which replay committed seeds, regressions and libFuzzer artifacts through exactly
//! the same decoding and the same oracles.

use crate::engine::Verdict;
use crate::gen::{Fl, Dur};
use crate::model::*;
use crate::props::{c10, c11, c13, c19};
use arbitrary::Unstructured;

fn verdict(v: Verdict) -> Result<(), String> {
    match v {
        Verdict::Fail(m) => Err(m),
        _ => Ok(()),
    }
}

const FORMATS: [&str; 8] = [
    "%Y-%m-%dT%H:%M:%S.%f %T",
    "%Y-%m-%dT%H:%M:%S.%f? %T?",
    "%Y-%m-%dT%H:%M:%S.%f?%z",
    "%a, %d %b %Y %H:%M:%S",
    "%A, %d %B %Y %H:%M:%S",
    "%Y-%jT%H:%M:%S",
    "%y%m%d %H%M%S %w %J",
    "%Y-%m-%d",
];

/// C13: the bytes are text; an optional 0x1f byte separates the input from the format string
pub fn parse_any(data: &[u8]) -> Result<(), String> {
    let (a, b) = match data.iter().position(|b| *b == 0x1f) {
        Some(i) => (&data[..i], Some(&data[i + 1..])),
        None => (data, None),
    };
    let s = String::from_utf8_lossy(a).into_owned();
    let f = match b {
        Some(b) => String::from_utf8_lossy(b).into_owned(),
        None => FORMATS[data.first().copied().unwrap_or(0) as usize % FORMATS.len()].to_string(),
    };
    verdict(c13::oracle(&c13::Case { s, f, must_reject: false }))
}

fn day(u: &mut Unstructured) -> arbitrary::Result<i64> {
    let (lo, hi) = day_range_0001_9999();
    u.int_in_range(lo..=hi)
}

/// C10: structured ISO / RFC 3339 text vs the model instant, and library-text round trips
pub fn iso_roundtrip(data: &[u8]) -> Result<(), String> {
    let mut u = Unstructured::new(data);
    let r: arbitrary::Result<Result<(), String>> = (|| {
        let which: u8 = u.int_in_range(0..=2)?;
        Ok(match which {
            0 => {
                let nfrac: usize = u.int_in_range(0..=9)?;
                let mut frac = String::new();
                for _ in 0..nfrac {
                    frac.push((b'0' + u.int_in_range(0..=9u8)?) as char);
                }
                let suffix = if u.ratio(1, 2)? { Some((u.int_in_range(0..=8usize)?, u.ratio(1, 5)?)) } else { None };
                let tz: u8 = u.int_in_range(0..=3)?;
                let suffix = match (tz, suffix) {
                    (1, Some((s, _))) if s != S_UTC => None,
                    (_, s) => s,
                };
                let g = c10::Gram { day: day(&mut u)?, hh: u.int_in_range(0..=23)?, mm: u.int_in_range(0..=59)?, ss: u.int_in_range(0..=59)?, frac, space_sep: u.ratio(1, 3)?, tz, oh: u.int_in_range(0..=23)?, om: u.int_in_range(0..=59)?, suffix };
                verdict(c10::gram_oracle(&g))
            }
            1 => {
                let d = day(&mut u)?;
                let tod: i128 = u.int_in_range(0..=(NS_D - 1) as u64)? as i128;
                verdict(c10::rt_oracle(&c10::Rt { g: d as i128 * NS_D + tod, s: u.int_in_range(0..=8usize)? }))
            }
            _ => {
                let bits: u64 = u.arbitrary()?;
                let x = f64::from_bits(bits);
                if !x.is_finite() || x.abs() > 8.0e6 * 86_400.0 {
                    return Ok(Ok(()));
                }
                verdict(c10::num_oracle(&c10::Num { form: u.int_in_range(0..=2)?, x: Fl(bits), s: u.int_in_range(0..=8usize)?, alias: u.ratio(1, 6)? }))
            }
        })
    })();
    r.unwrap_or(Ok(()))
}

/// C11: unit text, offsets and display round trips
pub fn duration_text(data: &[u8]) -> Result<(), String> {
    let mut u = Unstructured::new(data);
    let r: arbitrary::Result<Result<(), String>> = (|| {
        let which: u8 = u.int_in_range(0..=2)?;
        Ok(match which {
            0 => {
                let n: usize = u.int_in_range(1..=7)?;
                let mut groups = vec![];
                let mut unit = 0usize;
                for _ in 0..n {
                    if unit >= 7 {
                        break;
                    }
                    let skip: usize = u.int_in_range(0..=2)?;
                    unit += skip;
                    if unit >= 7 {
                        break;
                    }
                    let int: u32 = u.int_in_range(0..=99_999)?;
                    let v = if u.ratio(1, 2)? { format!("{}", int) } else { format!("{}.{}", int % 10_000, u.int_in_range(0..=999_999u32)?) };
                    groups.push((unit, u.int_in_range(0..=3usize)? % [3, 4, 4, 4, 3, 4, 3][unit], v));
                    unit += 1;
                }
                if groups.is_empty() {
                    return Ok(Ok(()));
                }
                verdict(c11::text_oracle(&c11::Text { neg: u.ratio(1, 2)?, groups }))
            }
            1 => verdict(c11::offset_oracle(&c11::Offset { neg: u.ratio(1, 2)?, h: u.int_in_range(0..=99)?, m: u.int_in_range(0..=59)?, s: if u.ratio(1, 2)? { Some(u.int_in_range(0..=59)?) } else { None }, colon: u.ratio(1, 2)? })),
            _ => {
                let max: i64 = 32_768 * 3_155_760_000; // the whole representable range
                let secs: i64 = u.int_in_range(-max..=max)?;
                let ns: i64 = u.int_in_range(0..=999_999_999)?;
                verdict(c11::dec_oracle(&c11::Dec { c: secs as i128 * NS_S + ns as i128 }))
            }
        })
    })();
    r.unwrap_or(Ok(()))
}

/// C19: a format built from bytes, rendered for an epoch built from bytes, vs the model; parse-back
pub fn format_pair(data: &[u8]) -> Result<(), String> {
    let mut u = Unstructured::new(data);
    let r: arbitrary::Result<Result<(), String>> = (|| {
        let n: usize = u.int_in_range(1..=16)?;
        let mut items = vec![];
        for _ in 0..n {
            let t: usize = u.int_in_range(0..=13)?;
            let ns: usize = u.int_in_range(0..=2)?;
            let mut sep = String::new();
            for _ in 0..ns {
                let c = u.int_in_range(0x20u8..=0x7e)? as char;
                if c != '%' && c != '?' {
                    sep.push(c);
                }
            }
            items.push((t, sep));
        }
        let d = day(&mut u)?;
        let tod: i128 = u.int_in_range(0..=(NS_D - 1) as u64)? as i128;
        let s: usize = u.int_in_range(0..=8)?;
        let off_min: i32 = if u.ratio(1, 2)? { 0 } else { u.int_in_range(-1439..=1439)? };
        Ok(verdict(c19::fmt_oracle(&c19::Fmt { items, g: d as i128 * NS_D + tod, s, off_min })))
    })();
    r.unwrap_or(Ok(()))
}

// ---------------------------------------------------------------- structured cases of any property
thread_local! {
    static REGISTRY: std::cell::RefCell<std::collections::HashMap<String, Vec<Box<dyn crate::engine::DynSub>>>> = std::cell::RefCell::new(std::collections::HashMap::new());
}

/// ids of the open findings of known_findings.json (the fuzz entry has no witness replay: an open finding is active)
fn open_findings() -> &'static std::collections::HashSet<String> {
    static OPEN: std::sync::OnceLock<std::collections::HashSet<String>> = std::sync::OnceLock::new();
    OPEN.get_or_init(|| {
        let mut set = std::collections::HashSet::new();
        let path = format!("{}/known_findings.json", crate::engine::verif_root());
        if let Ok(txt) = std::fs::read_to_string(path) {
            if let Ok(v) = serde_json::from_str::<serde_json::Value>(&txt) {
                let list = v.as_array().cloned().or_else(|| v["findings"].as_array().cloned()).unwrap_or_default();
                for e in list {
                    if e["status"].as_str() == Some("open") {
                        if let Some(id) = e["id"].as_str() {
                            set.insert(id.to_string());
                        }
                    }
                }
            }
        }
        set
    })
}

/// The generic structured target: byte 0 selects one of the property's generated sub-checks, the remaining bytes
/// are the random stream of that sub-check's proptest strategy (pass-through RNG). The case is judged by the
/// sub-check's own oracle and known-finding gate; an unexplained failure is returned with the case.
pub fn prop_case(prop: &str, data: &[u8]) -> Result<(), String> {
    if data.len() < 2 {
        return Ok(());
    }
    REGISTRY.with(|r| {
        let mut r = r.borrow_mut();
        let subs = r.entry(prop.to_string()).or_insert_with(|| match crate::props::get(prop) {
            Some(m) => (m.subs)().into_iter().filter(|s| s.is_generated()).collect(),
            None => vec![],
        });
        if subs.is_empty() {
            return Ok(());
        }
        let i = (data[0] as usize * subs.len()) >> 8;
        match subs[i].fuzz_one(&data[1..]) {
            crate::engine::FuzzOutcome::Fail { message, debug, known, case } => {
                if let Some(id) = known {
                    if open_findings().contains(id) {
                        return Ok(());
                    }
                }
                Err(format!("{}: {} [case {} = {}]", subs[i].name(), message, debug, case))
            }
            _ => Ok(()),
        }
    })
}

macro_rules! prop_case_fns {
    ($($f:ident $id:expr),*) => { $(pub fn $f(d: &[u8]) -> Result<(), String> { prop_case($id, d) })* };
}
prop_case_fns!(pc01 "C01", pc02 "C02", pc03 "C03", pc04 "C04", pc05 "C05", pc06 "C06", pc07 "C07", pc08 "C08", pc09 "C09", pc10 "C10",
    pc11 "C11", pc12 "C12", pc13 "C13", pc14 "C14", pc15 "C15", pc16 "C16", pc17 "C17", pc18 "C18", pc19 "C19", pc20 "C20");

pub const TARGETS: [(&str, &str, fn(&[u8]) -> Result<(), String>); 24] = [
    ("parse_any", "C13", parse_any),
    ("iso_roundtrip", "C10", iso_roundtrip),
    ("duration_text", "C11", duration_text),
    ("format_pair", "C19", format_pair),
    ("prop_case_C01", "C01", pc01), ("prop_case_C02", "C02", pc02), ("prop_case_C03", "C03", pc03), ("prop_case_C04", "C04", pc04),
    ("prop_case_C05", "C05", pc05), ("prop_case_C06", "C06", pc06), ("prop_case_C07", "C07", pc07), ("prop_case_C08", "C08", pc08),
    ("prop_case_C09", "C09", pc09), ("prop_case_C10", "C10", pc10), ("prop_case_C11", "C11", pc11), ("prop_case_C12", "C12", pc12),
    ("prop_case_C13", "C13", pc13), ("prop_case_C14", "C14", pc14), ("prop_case_C15", "C15", pc15), ("prop_case_C16", "C16", pc16),
    ("prop_case_C17", "C17", pc17), ("prop_case_C18", "C18", pc18), ("prop_case_C19", "C19", pc19), ("prop_case_C20", "C20", pc20),
];

/// entry of the `prop_case` fuzz binary: the property comes from the environment (HV_FUZZ_PROP)
pub fn prop_case_env(data: &[u8]) -> Result<(), String> {
    // libfuzzer-sys installs a panic hook that aborts the process at once; some oracles EXPECT a panic from the
    // library (the constructors documented to panic on invalid dates, `{:o}` outside the counter's range) and catch
    // it. The quiet hook of `hv` is installed instead: panics unwind to `guard`, and a panic nobody catches still
    // aborts through libfuzzer-sys's own catch_unwind around the target.
    static HOOK: std::sync::Once = std::sync::Once::new();
    HOOK.call_once(crate::engine::install_quiet_panic_hook);
    static PROP: std::sync::OnceLock<String> = std::sync::OnceLock::new();
    let p = PROP.get_or_init(|| std::env::var("HV_FUZZ_PROP").unwrap_or_else(|_| "C01".to_string()));
    prop_case(p, data)
}

#[allow(dead_code)]
fn _unused(_: Dur) {}

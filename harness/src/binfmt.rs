//! A minimal serde data format that is NOT human readable (`is_human_readable() == false`), standing in for
//! bincode / postcard-style formats (none of which is available offline): values are written as a flat list of
//! tokens and read back from it. Only what a value type built from integers, strings, tuples, sequences and
//! structs needs is implemented. Used by the serde round trips of C10 and C11.
use serde::de::{self, DeserializeSeed, SeqAccess, Visitor};
use serde::ser::{self, Serialize};
use std::fmt;

#[derive(Clone, Debug, PartialEq)]
pub enum Tok {
    Bool(bool),
    I64(i64),
    U64(u64),
    I128(i128),
    U128(u128),
    F64(u64),
    Str(String),
    Bytes(Vec<u8>),
    Unit,
    None,
    Some,
    /// a sequence / tuple / struct of n elements follows
    Seq(usize),
}

#[derive(Debug)]
pub struct Error(pub String);
impl fmt::Display for Error {
    fn fmt(&self, f: &mut fmt::Formatter) -> fmt::Result {
        f.write_str(&self.0)
    }
}
impl std::error::Error for Error {}
impl ser::Error for Error {
    fn custom<T: fmt::Display>(m: T) -> Self {
        Error(m.to_string())
    }
}
impl de::Error for Error {
    fn custom<T: fmt::Display>(m: T) -> Self {
        Error(m.to_string())
    }
}

pub fn to_tokens<T: Serialize>(v: &T) -> Result<Vec<Tok>, Error> {
    let mut s = Ser { out: vec![] };
    v.serialize(&mut s)?;
    Ok(s.out)
}

pub fn from_tokens<'de, T: de::Deserialize<'de>>(toks: &[Tok]) -> Result<T, Error> {
    let mut d = De { toks, pos: 0 };
    let v = T::deserialize(&mut d)?;
    if d.pos != toks.len() {
        return Err(Error(format!("{} trailing tokens", toks.len() - d.pos)));
    }
    Ok(v)
}

pub struct Ser {
    out: Vec<Tok>,
}

pub struct Compound<'a> {
    ser: &'a mut Ser,
    at: usize,
    n: usize,
}

impl<'a> Compound<'a> {
    fn elem<T: ?Sized + Serialize>(&mut self, v: &T) -> Result<(), Error> {
        self.n += 1;
        v.serialize(&mut *self.ser)
    }
    fn finish(self) -> Result<(), Error> {
        self.ser.out[self.at] = Tok::Seq(self.n);
        Ok(())
    }
}

macro_rules! compound_impl {
    ($tr:ident, $f:ident) => {
        impl<'a> ser::$tr for Compound<'a> {
            type Ok = ();
            type Error = Error;
            fn $f<T: ?Sized + Serialize>(&mut self, v: &T) -> Result<(), Error> {
                self.elem(v)
            }
            fn end(self) -> Result<(), Error> {
                self.finish()
            }
        }
    };
}
compound_impl!(SerializeSeq, serialize_element);
compound_impl!(SerializeTuple, serialize_element);
compound_impl!(SerializeTupleStruct, serialize_field);
compound_impl!(SerializeTupleVariant, serialize_field);

impl<'a> ser::SerializeStruct for Compound<'a> {
    type Ok = ();
    type Error = Error;
    fn serialize_field<T: ?Sized + Serialize>(&mut self, _k: &'static str, v: &T) -> Result<(), Error> {
        self.elem(v)
    }
    fn end(self) -> Result<(), Error> {
        self.finish()
    }
}
impl<'a> ser::SerializeStructVariant for Compound<'a> {
    type Ok = ();
    type Error = Error;
    fn serialize_field<T: ?Sized + Serialize>(&mut self, _k: &'static str, v: &T) -> Result<(), Error> {
        self.elem(v)
    }
    fn end(self) -> Result<(), Error> {
        self.finish()
    }
}
impl<'a> ser::SerializeMap for Compound<'a> {
    type Ok = ();
    type Error = Error;
    fn serialize_key<T: ?Sized + Serialize>(&mut self, v: &T) -> Result<(), Error> {
        self.elem(v)
    }
    fn serialize_value<T: ?Sized + Serialize>(&mut self, v: &T) -> Result<(), Error> {
        self.elem(v)
    }
    fn end(self) -> Result<(), Error> {
        self.finish()
    }
}

impl Ser {
    fn compound(&mut self) -> Compound<'_> {
        let at = self.out.len();
        self.out.push(Tok::Seq(0));
        Compound { ser: self, at, n: 0 }
    }
}

impl<'a> ser::Serializer for &'a mut Ser {
    type Ok = ();
    type Error = Error;
    type SerializeSeq = Compound<'a>;
    type SerializeTuple = Compound<'a>;
    type SerializeTupleStruct = Compound<'a>;
    type SerializeTupleVariant = Compound<'a>;
    type SerializeMap = Compound<'a>;
    type SerializeStruct = Compound<'a>;
    type SerializeStructVariant = Compound<'a>;

    fn is_human_readable(&self) -> bool {
        false
    }
    fn serialize_bool(self, v: bool) -> Result<(), Error> {
        self.out.push(Tok::Bool(v));
        Ok(())
    }
    fn serialize_i8(self, v: i8) -> Result<(), Error> {
        self.serialize_i64(v as i64)
    }
    fn serialize_i16(self, v: i16) -> Result<(), Error> {
        self.serialize_i64(v as i64)
    }
    fn serialize_i32(self, v: i32) -> Result<(), Error> {
        self.serialize_i64(v as i64)
    }
    fn serialize_i64(self, v: i64) -> Result<(), Error> {
        self.out.push(Tok::I64(v));
        Ok(())
    }
    fn serialize_i128(self, v: i128) -> Result<(), Error> {
        self.out.push(Tok::I128(v));
        Ok(())
    }
    fn serialize_u8(self, v: u8) -> Result<(), Error> {
        self.serialize_u64(v as u64)
    }
    fn serialize_u16(self, v: u16) -> Result<(), Error> {
        self.serialize_u64(v as u64)
    }
    fn serialize_u32(self, v: u32) -> Result<(), Error> {
        self.serialize_u64(v as u64)
    }
    fn serialize_u64(self, v: u64) -> Result<(), Error> {
        self.out.push(Tok::U64(v));
        Ok(())
    }
    fn serialize_u128(self, v: u128) -> Result<(), Error> {
        self.out.push(Tok::U128(v));
        Ok(())
    }
    fn serialize_f32(self, v: f32) -> Result<(), Error> {
        self.serialize_f64(v as f64)
    }
    fn serialize_f64(self, v: f64) -> Result<(), Error> {
        self.out.push(Tok::F64(v.to_bits()));
        Ok(())
    }
    fn serialize_char(self, v: char) -> Result<(), Error> {
        self.serialize_str(&v.to_string())
    }
    fn serialize_str(self, v: &str) -> Result<(), Error> {
        self.out.push(Tok::Str(v.to_string()));
        Ok(())
    }
    fn serialize_bytes(self, v: &[u8]) -> Result<(), Error> {
        self.out.push(Tok::Bytes(v.to_vec()));
        Ok(())
    }
    fn serialize_none(self) -> Result<(), Error> {
        self.out.push(Tok::None);
        Ok(())
    }
    fn serialize_some<T: ?Sized + Serialize>(self, v: &T) -> Result<(), Error> {
        self.out.push(Tok::Some);
        v.serialize(self)
    }
    fn serialize_unit(self) -> Result<(), Error> {
        self.out.push(Tok::Unit);
        Ok(())
    }
    fn serialize_unit_struct(self, _n: &'static str) -> Result<(), Error> {
        self.serialize_unit()
    }
    fn serialize_unit_variant(self, _n: &'static str, i: u32, _v: &'static str) -> Result<(), Error> {
        self.serialize_u64(i as u64)
    }
    fn serialize_newtype_struct<T: ?Sized + Serialize>(self, _n: &'static str, v: &T) -> Result<(), Error> {
        v.serialize(self)
    }
    fn serialize_newtype_variant<T: ?Sized + Serialize>(self, _n: &'static str, i: u32, _v: &'static str, v: &T) -> Result<(), Error> {
        self.out.push(Tok::U64(i as u64));
        v.serialize(self)
    }
    fn serialize_seq(self, _len: Option<usize>) -> Result<Compound<'a>, Error> {
        Ok(self.compound())
    }
    fn serialize_tuple(self, _len: usize) -> Result<Compound<'a>, Error> {
        Ok(self.compound())
    }
    fn serialize_tuple_struct(self, _n: &'static str, _len: usize) -> Result<Compound<'a>, Error> {
        Ok(self.compound())
    }
    fn serialize_tuple_variant(self, _n: &'static str, i: u32, _v: &'static str, _len: usize) -> Result<Compound<'a>, Error> {
        self.out.push(Tok::U64(i as u64));
        Ok(self.compound())
    }
    fn serialize_map(self, _len: Option<usize>) -> Result<Compound<'a>, Error> {
        Ok(self.compound())
    }
    fn serialize_struct(self, _n: &'static str, _len: usize) -> Result<Compound<'a>, Error> {
        Ok(self.compound())
    }
    fn serialize_struct_variant(self, _n: &'static str, i: u32, _v: &'static str, _len: usize) -> Result<Compound<'a>, Error> {
        self.out.push(Tok::U64(i as u64));
        Ok(self.compound())
    }
}

pub struct De<'t> {
    toks: &'t [Tok],
    pos: usize,
}

struct Elems<'a, 't> {
    de: &'a mut De<'t>,
    left: usize,
}

impl<'de, 'a, 't> SeqAccess<'de> for Elems<'a, 't> {
    type Error = Error;
    fn next_element_seed<T: DeserializeSeed<'de>>(&mut self, seed: T) -> Result<Option<T::Value>, Error> {
        if self.left == 0 {
            return Ok(None);
        }
        self.left -= 1;
        seed.deserialize(&mut *self.de).map(Some)
    }
    fn size_hint(&self) -> Option<usize> {
        Some(self.left)
    }
}

impl<'de, 'a, 't> de::Deserializer<'de> for &'a mut De<'t> {
    type Error = Error;

    fn is_human_readable(&self) -> bool {
        false
    }

    fn deserialize_any<V: Visitor<'de>>(self, visitor: V) -> Result<V::Value, Error> {
        let Some(t) = self.toks.get(self.pos).cloned() else {
            return Err(Error("unexpected end of the token list".into()));
        };
        self.pos += 1;
        match t {
            Tok::Bool(v) => visitor.visit_bool(v),
            Tok::I64(v) => visitor.visit_i64(v),
            Tok::U64(v) => visitor.visit_u64(v),
            Tok::I128(v) => visitor.visit_i128(v),
            Tok::U128(v) => visitor.visit_u128(v),
            Tok::F64(v) => visitor.visit_f64(f64::from_bits(v)),
            Tok::Str(v) => visitor.visit_string(v),
            Tok::Bytes(v) => visitor.visit_byte_buf(v),
            Tok::Unit => visitor.visit_unit(),
            Tok::None => visitor.visit_none(),
            Tok::Some => visitor.visit_some(self),
            Tok::Seq(n) => visitor.visit_seq(Elems { de: self, left: n }),
        }
    }

    serde::forward_to_deserialize_any! {
        bool i8 i16 i32 i64 i128 u8 u16 u32 u64 u128 f32 f64 char str string bytes byte_buf option unit unit_struct
        newtype_struct seq tuple tuple_struct map struct enum identifier ignored_any
    }
}

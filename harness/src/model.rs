//! Reference model shared by all checks. Contains NO hifitime computation: only public facts
//! (calendar rules, the IERS leap-second table, the NAIF / ESA closed forms) in exact integer
//! arithmetic (i128 nanoseconds) or, for ET/TDB, straightforward f64 evaluation.
//!
//! The only hifitime items used here are type names for conversion at the boundary
//! (`Duration::to_parts`, `Duration::from_parts` on already-canonical parts, `TimeScale` variants).

use hifitime::{Duration, TimeScale};

pub const NS_S: i128 = 1_000_000_000;
pub const NS_MIN: i128 = 60 * NS_S;
pub const NS_H: i128 = 3600 * NS_S;
pub const NS_D: i128 = 86_400 * NS_S;
pub const NS_W: i128 = 7 * NS_D;
/// nanoseconds per (Julian) century
pub const NPC: i128 = 36_525 * NS_D;
pub const DMIN: i128 = -32_768 * NPC;
pub const DMAX: i128 = 32_767 * NPC + NPC;

/// ns per unit, in the order of `UNITS`
pub const UNIT_NS: [i128; 9] = [1, 1_000, 1_000_000, NS_S, NS_MIN, NS_H, NS_D, NS_W, NPC];
pub const UNITS: [hifitime::Unit; 9] = [
    hifitime::Unit::Nanosecond,
    hifitime::Unit::Microsecond,
    hifitime::Unit::Millisecond,
    hifitime::Unit::Second,
    hifitime::Unit::Minute,
    hifitime::Unit::Hour,
    hifitime::Unit::Day,
    hifitime::Unit::Week,
    hifitime::Unit::Century,
];
pub const UNIT_NAMES: [&str; 9] = ["ns", "us", "ms", "s", "min", "h", "d", "wk", "cy"];

#[inline]
pub fn clamp(x: i128) -> i128 {
    if x < DMIN {
        DMIN
    } else if x > DMAX {
        DMAX
    } else {
        x
    }
}

/// signed nanosecond count of a library duration, read from its parts (never via total_nanoseconds)
#[inline]
pub fn count(d: Duration) -> i128 {
    let (c, n) = d.to_parts();
    (c as i128) * NPC + (n as i128)
}

/// canonical-form predicate of C02
#[inline]
pub fn canonical(d: Duration) -> bool {
    let (c, n) = d.to_parts();
    (n as i128) < NPC || (c == i16::MAX && n as i128 == NPC)
}

/// library duration for a count (clamped), built from already-canonical parts
#[inline]
pub fn mk(x: i128) -> Duration {
    let x = clamp(x);
    if x == DMAX {
        Duration::MAX
    } else {
        Duration::from_parts(x.div_euclid(NPC) as i16, x.rem_euclid(NPC) as u64)
    }
}

// ------------------------------------------------------------------ calendar

/// days from 1970-01-01 to y-m-d (proleptic Gregorian), any i64 year
pub fn days_from_civil(y: i64, m: u32, d: u32) -> i64 {
    let y = if m <= 2 { y - 1 } else { y };
    let era = y.div_euclid(400);
    let yoe = y.rem_euclid(400);
    let mp = (m as i64 + 9) % 12;
    let doy = (153 * mp + 2) / 5 + d as i64 - 1;
    let doe = yoe * 365 + yoe / 4 - yoe / 100 + doy;
    era * 146_097 + doe - 719_468
}

/// inverse of `days_from_civil`
pub fn civil_from_days(z: i64) -> (i64, u32, u32) {
    let z = z + 719_468;
    let era = z.div_euclid(146_097);
    let doe = z.rem_euclid(146_097);
    let yoe = (doe - doe / 1460 + doe / 36_524 - doe / 146_096) / 365;
    let y = yoe + era * 400;
    let doy = doe - (365 * yoe + yoe / 4 - yoe / 100);
    let mp = (5 * doy + 2) / 153;
    let d = (doy - (153 * mp + 2) / 5 + 1) as u32;
    let m = if mp < 10 { mp + 3 } else { mp - 9 } as u32;
    (if m <= 2 { y + 1 } else { y }, m, d)
}

pub fn is_leap(y: i64) -> bool {
    (y % 4 == 0 && y % 100 != 0) || y % 400 == 0
}

pub fn month_len(y: i64, m: u32) -> u32 {
    match m {
        1 | 3 | 5 | 7 | 8 | 10 | 12 => 31,
        4 | 6 | 9 | 11 => 30,
        2 => {
            if is_leap(y) {
                29
            } else {
                28
            }
        }
        _ => 0,
    }
}

/// days from 1900-01-01 to y-m-d
pub fn days_1900(y: i64, m: u32, d: u32) -> i64 {
    days_from_civil(y, m, d) - days_from_civil(1900, 1, 1)
}

/// 0 = Monday … 6 = Sunday, for a day number counted from 1900-01-01 (a Monday)
pub fn weekday_of_day1900(day: i64) -> u8 {
    day.rem_euclid(7) as u8
}

pub const WEEKDAY_LONG: [&str; 7] = [
    "Monday",
    "Tuesday",
    "Wednesday",
    "Thursday",
    "Friday",
    "Saturday",
    "Sunday",
];
pub const WEEKDAY_SHORT: [&str; 7] = ["Mon", "Tue", "Wed", "Thu", "Fri", "Sat", "Sun"];
pub const MONTH_LONG: [&str; 12] = [
    "January",
    "February",
    "March",
    "April",
    "May",
    "June",
    "July",
    "August",
    "September",
    "October",
    "November",
    "December",
];
pub const MONTH_SHORT: [&str; 12] = [
    "Jan", "Feb", "Mar", "Apr", "May", "Jun", "Jul", "Aug", "Sep", "Oct", "Nov", "Dec",
];

/// first and last day number (from 1900-01-01) of years 0001..=9999
pub fn day_range_0001_9999() -> (i64, i64) {
    (days_1900(1, 1, 1), days_1900(9999, 12, 31))
}

/// Gregorian fields of a nanosecond count since 1900-01-01T00:00:00 (of some scale's own calendar)
#[derive(Clone, Copy, Debug, PartialEq, Eq)]
pub struct Greg {
    pub y: i64,
    pub m: u32,
    pub d: u32,
    pub hh: u32,
    pub mm: u32,
    pub ss: u32,
    pub ns: u32,
    /// day number from 1900-01-01
    pub day1900: i64,
}

pub fn greg_of_ns1900(ns1900: i128) -> Greg {
    let day = ns1900.div_euclid(NS_D) as i64;
    let tod = ns1900.rem_euclid(NS_D);
    let (y, m, d) = civil_from_days(day + days_from_civil(1900, 1, 1));
    Greg {
        y,
        m,
        d,
        hh: (tod / NS_H) as u32,
        mm: ((tod % NS_H) / NS_MIN) as u32,
        ss: ((tod % NS_MIN) / NS_S) as u32,
        ns: (tod % NS_S) as u32,
        day1900: day,
    }
}

pub fn ns1900_of_fields(y: i64, m: u32, d: u32, hh: u32, mm: u32, ss: u32, ns: u32) -> i128 {
    days_1900(y, m, d) as i128 * NS_D
        + hh as i128 * NS_H
        + mm as i128 * NS_MIN
        + ss as i128 * NS_S
        + ns as i128
}

/// 1-based day of year of a Greg
pub fn day_of_year(g: &Greg) -> u32 {
    (g.day1900 - days_1900(g.y, 1, 1)) as u32 + 1
}

/// render "YYYY-MM-DDTHH:MM:SS[.fffffffff]"
pub fn render_iso(g: &Greg) -> String {
    let mut s = format!(
        "{}-{:02}-{:02}T{:02}:{:02}:{:02}",
        fmt_year(g.y),
        g.m,
        g.d,
        g.hh,
        g.mm,
        g.ss
    );
    if g.ns != 0 {
        s.push_str(&format!(".{:09}", g.ns));
    }
    s
}

/// `{:04}` formatting of a (possibly negative) year, as Rust formats an i32 with width 4
pub fn fmt_year(y: i64) -> String {
    format!("{:04}", y)
}

// ------------------------------------------------------------------ time scales

/// index order used everywhere in the harness
pub const SCALES: [TimeScale; 9] = [
    TimeScale::TAI,
    TimeScale::TT,
    TimeScale::ET,
    TimeScale::TDB,
    TimeScale::UTC,
    TimeScale::GPST,
    TimeScale::GST,
    TimeScale::BDT,
    TimeScale::QZSST,
];
pub const SCALE_NAMES: [&str; 9] = ["TAI", "TT", "ET", "TDB", "UTC", "GPST", "GST", "BDT", "QZSST"];
pub const S_TAI: usize = 0;
pub const S_TT: usize = 1;
pub const S_ET: usize = 2;
pub const S_TDB: usize = 3;
pub const S_UTC: usize = 4;
pub const S_GPST: usize = 5;
pub const S_GST: usize = 6;
pub const S_BDT: usize = 7;
pub const S_QZSST: usize = 8;
/// the six uniform atomic scales of C05
pub const UNIFORM: [usize; 6] = [S_TAI, S_TT, S_GPST, S_QZSST, S_GST, S_BDT];

pub fn scale_index(ts: TimeScale) -> usize {
    SCALES.iter().position(|s| *s == ts).unwrap()
}

/// reference civil date (in the scale's own calendar) and time of day of each scale's zero
pub fn ref_date(s: usize) -> (i64, u32, u32, i128) {
    match s {
        S_TAI | S_TT | S_UTC => (1900, 1, 1, 0),
        S_ET | S_TDB => (2000, 1, 1, 12 * NS_H),
        S_GPST | S_QZSST => (1980, 1, 6, 0),
        S_GST => (1999, 8, 22, 0),
        S_BDT => (2006, 1, 1, 0),
        _ => unreachable!(),
    }
}

/// nanoseconds from 1900-01-01T00:00:00 (in the scale's own calendar) to the scale's zero
pub fn greg_offset_ns(s: usize) -> i128 {
    let (y, m, d, tod) = ref_date(s);
    days_1900(y, m, d) as i128 * NS_D + tod
}

/// for the uniform scales: TAI count of the scale's zero, i.e. count_TAI = count_S + zero_tai(S).
/// (scale reading = TAI reading − lag; TT leads TAI by 32.184 s)
pub fn zero_tai_ns(s: usize) -> i128 {
    let lag_ns: i128 = match s {
        S_TAI => 0,
        S_TT => -32_184_000_000,
        S_GPST | S_QZSST | S_GST => 19 * NS_S,
        S_BDT => 33 * NS_S,
        _ => panic!("zero_tai_ns: not a uniform scale"),
    };
    greg_offset_ns(s) + lag_ns
}

pub fn is_uniform(s: usize) -> bool {
    UNIFORM.contains(&s)
}

/// J2000 (2000-01-01T12:00:00) as a TAI count from 1900
pub fn j2000_ns() -> i128 {
    days_1900(2000, 1, 1) as i128 * NS_D + 12 * NS_H
}

// ------------------------------------------------------------------ leap seconds

/// The 28 IERS-announced leap seconds as public fact: (year, month, day at 00:00:00 UTC from which
/// the offset applies, TAI−UTC in seconds from then on).
pub const IERS: [(i64, u32, i64); 28] = [
    (1972, 1, 10),
    (1972, 7, 11),
    (1973, 1, 12),
    (1974, 1, 13),
    (1975, 1, 14),
    (1976, 1, 15),
    (1977, 1, 16),
    (1978, 1, 17),
    (1979, 1, 18),
    (1980, 1, 19),
    (1981, 7, 20),
    (1982, 7, 21),
    (1983, 7, 22),
    (1985, 7, 23),
    (1988, 1, 24),
    (1990, 1, 25),
    (1991, 1, 26),
    (1992, 7, 27),
    (1993, 7, 28),
    (1994, 7, 29),
    (1996, 1, 30),
    (1997, 7, 31),
    (1999, 1, 32),
    (2006, 1, 33),
    (2009, 1, 34),
    (2012, 7, 35),
    (2015, 7, 36),
    (2017, 1, 37),
];

/// (UTC seconds since 1900-01-01 at which the entry starts, TAI−UTC seconds from then on)
pub fn leap_table() -> Vec<(i64, i64)> {
    IERS.iter()
        .map(|&(y, m, dat)| (days_1900(y, m, 1) * 86_400, dat))
        .collect()
}

/// TAI−UTC (seconds) in force at UTC count `u` (ns since 1900), table given
pub fn dat_at_utc_with(table: &[(i64, i64)], u: i128) -> i64 {
    let mut d = 0;
    for &(ts, dat) in table {
        if u >= ts as i128 * NS_S {
            d = dat;
        } else {
            break;
        }
    }
    d
}

pub fn dat_at_utc(u: i128) -> i64 {
    thread_local! { static T: Vec<(i64,i64)> = leap_table(); }
    T.with(|t| dat_at_utc_with(t, u))
}

pub fn utc_to_tai(u: i128) -> i128 {
    u + dat_at_utc(u) as i128 * NS_S
}

/// Result of converting a TAI count to UTC with the model
#[derive(Clone, Copy, Debug, PartialEq, Eq)]
pub enum TaiToUtc {
    /// the unique UTC count whose TAI image is the input
    Image(i128),
    /// the TAI instant lies inside an inserted leap second: (entry timestamp ns, step ns)
    InsideLeap { ts_ns: i128, step_ns: i128 },
}

pub fn tai_to_utc_with(table: &[(i64, i64)], t: i128) -> TaiToUtc {
    let mut prev = 0i64;
    for &(ts, dat) in table {
        let ts_ns = ts as i128 * NS_S;
        let lo = ts_ns + prev as i128 * NS_S; // first TAI instant of the inserted second(s)
        let hi = ts_ns + dat as i128 * NS_S; // TAI image of the entry timestamp
        if t < lo {
            return TaiToUtc::Image(t - prev as i128 * NS_S);
        }
        if t < hi {
            return TaiToUtc::InsideLeap {
                ts_ns,
                step_ns: (dat - prev) as i128 * NS_S,
            };
        }
        prev = dat;
    }
    TaiToUtc::Image(t - prev as i128 * NS_S)
}

pub fn tai_to_utc(t: i128) -> TaiToUtc {
    thread_local! { static T: Vec<(i64,i64)> = leap_table(); }
    T.with(|tb| tai_to_utc_with(tb, t))
}

/// distance (ns) from a count to the nearest leap entry, on the UTC axis and on the TAI axis
pub fn dist_to_leap(count_tai: i128) -> i128 {
    let mut best = i128::MAX;
    let mut prev = 0i64;
    for (ts, dat) in leap_table() {
        let ts_ns = ts as i128 * NS_S;
        for off in [0, prev, dat] {
            let d = (count_tai - (ts_ns + off as i128 * NS_S)).abs();
            if d < best {
                best = d;
            }
        }
        prev = dat;
    }
    best
}

/// Parse the IERS leap-seconds.list format with an independent small parser: (ntp seconds, dat)
pub fn parse_iers_list(text: &str) -> Result<Vec<(i64, i64)>, String> {
    let mut out = vec![];
    for line in text.lines() {
        let l = line.trim();
        if l.is_empty() || l.starts_with('#') {
            continue;
        }
        let mut it = l.split_whitespace();
        let a = it.next().ok_or("no ts")?.parse::<i64>().map_err(|e| e.to_string())?;
        let b = it.next().ok_or("no dat")?.parse::<i64>().map_err(|e| e.to_string())?;
        out.push((a, b));
    }
    Ok(out)
}

/// Parse DELTET/DELTA_AT of a NAIF LSK: (ntp seconds of the date, dat)
pub fn parse_naif_lsk(text: &str) -> Result<Vec<(i64, i64)>, String> {
    let start = text
        .rfind("DELTET/DELTA_AT")
        .ok_or("no DELTET/DELTA_AT block")?;
    let rest = &text[start..];
    let open = rest.find('(').ok_or("no (")?;
    let close = rest.find(')').ok_or("no )")?;
    let body = &rest[open + 1..close];
    let toks: Vec<&str> = body
        .split(|c: char| c.is_whitespace() || c == ',')
        .filter(|t| !t.is_empty())
        .collect();
    if toks.len() % 2 != 0 {
        return Err("odd token count".into());
    }
    let months = [
        "JAN", "FEB", "MAR", "APR", "MAY", "JUN", "JUL", "AUG", "SEP", "OCT", "NOV", "DEC",
    ];
    let mut out = vec![];
    for p in toks.chunks(2) {
        let dat = p[0].parse::<i64>().map_err(|e| e.to_string())?;
        let d = p[1].strip_prefix('@').ok_or("no @")?;
        let parts: Vec<&str> = d.split('-').collect();
        if parts.len() != 3 {
            return Err(format!("bad date {d}"));
        }
        let y = parts[0].parse::<i64>().map_err(|e| e.to_string())?;
        let m = months
            .iter()
            .position(|x| *x == parts[1])
            .ok_or("bad month")? as u32
            + 1;
        let day = parts[2].parse::<u32>().map_err(|e| e.to_string())?;
        out.push((days_1900(y, m, day) * 86_400, dat));
    }
    Ok(out)
}

/// NAIF constants (K, EB, M0, M1) parsed from the kernel text
pub fn parse_naif_consts(text: &str) -> Result<(f64, f64, f64, f64), String> {
    fn num(s: &str) -> Result<f64, String> {
        s.replace('D', "E").parse::<f64>().map_err(|e| format!("{s}: {e}"))
    }
    let mut k = None;
    let mut eb = None;
    let mut m = None;
    for line in text.lines() {
        let l = line.trim();
        if let Some(r) = l.strip_prefix("DELTET/K") {
            k = Some(num(r.trim().trim_start_matches('=').trim())?);
        } else if let Some(r) = l.strip_prefix("DELTET/EB") {
            eb = Some(num(r.trim().trim_start_matches('=').trim())?);
        } else if let Some(r) = l.strip_prefix("DELTET/M ") {
            let r = r.trim().trim_start_matches('=').trim();
            let r = r.trim_start_matches('(').trim_end_matches(')');
            let v: Vec<&str> = r.split_whitespace().collect();
            if v.len() == 2 {
                m = Some((num(v[0])?, num(v[1])?));
            }
        }
    }
    match (k, eb, m) {
        (Some(k), Some(eb), Some((m0, m1))) => Ok((k, eb, m0, m1)),
        _ => Err("missing constants".into()),
    }
}

// ------------------------------------------------------------------ ET / TDB closed forms

pub const NAIF_K: f64 = 1.657e-3;
pub const NAIF_EB: f64 = 1.671e-2;
pub const NAIF_M0: f64 = 6.239996;
pub const NAIF_M1: f64 = 1.99096871e-7;

/// ET − TAI − 32.184 s at `t` seconds past J2000
pub fn et_periodic(t: f64) -> f64 {
    let m = NAIF_M0 + NAIF_M1 * t;
    let e = m + NAIF_EB * m.sin();
    NAIF_K * e.sin()
}

/// TDB − TAI − 32.184 s at `t` seconds past J2000
pub fn tdb_periodic(t: f64) -> f64 {
    let g = 357.528_f64.to_radians() + 1.990_910_018_065_731e-7 * t;
    0.001_658 * (g + 0.0167 * g.sin()).sin()
}

/// seconds (f64) of a nanosecond count, built from whole seconds + sub-second part
pub fn ns_to_s(ns: i128) -> f64 {
    let s = ns.div_euclid(NS_S);
    let r = ns.rem_euclid(NS_S);
    s as f64 + r as f64 * 1e-9
}

/// model: TAI count (from 1900) -> ET or TDB count (from J2000 of that scale), rounded to ns
pub fn tai_to_dyn(s: usize, tai: i128) -> i128 {
    let base = tai - j2000_ns() + 32_184_000_000;
    // t = base + p(t): fixed point, contraction factor ~3e-10
    let b = ns_to_s(base);
    let f = |t: f64| if s == S_ET { et_periodic(t) } else { tdb_periodic(t) };
    let mut t = b;
    for _ in 0..6 {
        t = b + f(t);
    }
    base + (f(t) * 1e9).round() as i128
}

/// model: ET/TDB count (from J2000) -> TAI count (from 1900), rounded to ns
pub fn dyn_to_tai(s: usize, c: i128) -> i128 {
    let t = ns_to_s(c);
    let p = if s == S_ET { et_periodic(t) } else { tdb_periodic(t) };
    c - 32_184_000_000 - (p * 1e9).round() as i128 + j2000_ns()
}

/// model conversion of any scale's count to a TAI count. `None` for nothing (total).
pub fn to_tai(s: usize, c: i128) -> i128 {
    match s {
        S_UTC => utc_to_tai(c),
        S_ET | S_TDB => dyn_to_tai(s, c),
        _ => c + zero_tai_ns(s),
    }
}

/// model conversion of a TAI count into a scale. For UTC returns None when inside an inserted second.
pub fn from_tai(s: usize, t: i128) -> Option<i128> {
    match s {
        S_UTC => match tai_to_utc(t) {
            TaiToUtc::Image(u) => Some(u),
            TaiToUtc::InsideLeap { .. } => None,
        },
        S_ET | S_TDB => Some(tai_to_dyn(s, t)),
        _ => Some(t - zero_tai_ns(s)),
    }
}

// ------------------------------------------------------------------ floats

pub fn ulp(x: f64) -> f64 {
    let x = x.abs();
    if !x.is_finite() {
        return f64::NAN;
    }
    if x == 0.0 {
        return f64::from_bits(1);
    }
    let bits = x.to_bits();
    let up = f64::from_bits(bits + 1);
    if up.is_finite() {
        up - x
    } else {
        x - f64::from_bits(bits - 1)
    }
}

/// |v - p/q| for the exact rational p/q (0 < q < 2^63). The quotient is split as hi (f64) + a small
/// integer + the fraction r/q, the latter computed as a scaled integer with ~120 significant bits and
/// handed over as two f64 pieces; the pieces are subtracted from v one by one (exact by Sterbenz when v is
/// near p/q), so the result is accurate to far below one ulp of v whatever the magnitude.
pub fn abs_err_vs_rational(v: f64, p: i128, q: i128) -> f64 {
    let a = p / q; // truncated: remainder has the sign of p, so no cancellation between hi and the fraction
    let r = p % q;
    let hi = a as f64;
    let d0 = (a - hi as i128) as f64;
    let ru = r.unsigned_abs();
    let (mut f1, mut f2) = if ru == 0 {
        (0.0, 0.0)
    } else {
        let k = ru.leading_zeros() - 1; // ru << k < 2^127
        let fi: u128 = (ru << k) / q as u128; // fraction * 2^k
        let g1 = fi as f64;
        let rem = fi as i128 - g1 as i128;
        let g2 = rem as f64;
        let sc = 2f64.powi(-(k as i32));
        (g1 * sc, g2 * sc)
    };
    if r < 0 {
        f1 = -f1;
        f2 = -f2;
    }
    ((((v - hi) - d0) - f1) - f2).abs()
}

/// nearest f64 to p/q (to within ~1e-19 relative)
pub fn rational_to_f64(p: i128, q: i128) -> f64 {
    let a = p / q;
    let r = p % q;
    let hi = a as f64;
    let lo = (a - hi as i128) as f64 + (r as f64) / (q as f64);
    hi + lo
}

/// decompose a finite f64 as m * 2^e with integer m (|m| < 2^53)
pub fn f64_parts(x: f64) -> (i64, i32) {
    let bits = x.to_bits();
    let sign = if bits >> 63 == 1 { -1i64 } else { 1 };
    let exp = ((bits >> 52) & 0x7ff) as i32;
    let frac = (bits & ((1u64 << 52) - 1)) as i64;
    if exp == 0 {
        (sign * frac, -1074)
    } else {
        (sign * (frac | (1i64 << 52)), exp - 1075)
    }
}

/// trunc-toward-zero of a finite f64 as i128, saturating
pub fn f64_trunc_i128(x: f64) -> i128 {
    let (m, e) = f64_parts(x);
    if m == 0 {
        return 0;
    }
    if e >= 0 {
        if e >= 74 {
            // |m| >= 1 so |x| >= 2^74 ... may still fit i128 up to 2^127
            if e > 127 - 53 {
                return if m < 0 { i128::MIN } else { i128::MAX };
            }
        }
        (m as i128) << e
    } else {
        let sh = (-e) as u32;
        if sh >= 64 {
            0
        } else {
            // truncation toward zero
            let a = (m.unsigned_abs() >> sh) as i128;
            if m < 0 {
                -a
            } else {
                a
            }
        }
    }
}

/// |count| * m * 2^e truncated toward zero, by schoolbook multiplication on 32-bit limbs
/// (independent of any 128-bit splitting trick). None when the result is >= 2^127.
pub fn big_mul_shift(mag: u128, m: u64, e: i32) -> Option<u128> {
    let a: Vec<u64> = (0..4).map(|i| ((mag >> (32 * i)) & 0xffff_ffff) as u64).collect();
    let b: Vec<u64> = (0..2).map(|i| (m >> (32 * i)) & 0xffff_ffff).collect();
    let mut c = vec![0u64; 8];
    for i in 0..4 {
        let mut carry = 0u64;
        for j in 0..2 {
            let t = c[i + j] + a[i] * b[j] + carry;
            c[i + j] = t & 0xffff_ffff;
            carry = t >> 32;
        }
        let mut k = i + 2;
        while carry != 0 {
            let t = c[k] + carry;
            c[k] = t & 0xffff_ffff;
            carry = t >> 32;
            k += 1;
        }
    }
    // bit i of the product
    let bit = |i: i64| -> u128 {
        if i < 0 || i >= 256 {
            0
        } else {
            ((c[(i / 32) as usize] >> (i % 32)) & 1) as u128
        }
    };
    // result bit j = product bit (j - e)
    for j in 127..(256 + e.max(0) as i64) {
        if bit(j - e as i64) != 0 {
            return None;
        }
    }
    let mut r = 0u128;
    for j in 0..127i64 {
        r |= bit(j - e as i64) << j;
    }
    Some(r)
}

/// exact count * q truncated toward zero (None: magnitude >= 2^127)
pub fn mul_f64_trunc(cnt: i128, q: f64) -> Option<i128> {
    let (m, e) = f64_parts(q);
    let r = big_mul_shift(cnt.unsigned_abs(), m.unsigned_abs(), e)?;
    let neg = (cnt < 0) != (m < 0);
    Some(if neg { -(r as i128) } else { r as i128 })
}

// ------------------------------------------------------------------ self test of the oracle

/// Cross-checks inside the model (run at harness start-up). Returns a description on failure.
pub fn self_test() -> Result<(), String> {
    // calendar inverse pair over ±40 000 years (stride keeps it fast; full month boundaries)
    let lo = days_from_civil(-40_000, 1, 1);
    let hi = days_from_civil(40_000, 12, 31);
    let mut z = lo;
    let mut prev = civil_from_days(lo - 1);
    while z <= hi {
        let (y, m, d) = civil_from_days(z);
        if days_from_civil(y, m, d) != z {
            return Err(format!("calendar pair disagrees at day {z}"));
        }
        if m == 0 || m > 12 || d == 0 || d > month_len(y, m) {
            return Err(format!("invalid civil date from day {z}: {y}-{m}-{d}"));
        }
        // successor relation
        let (py, pm, pd) = prev;
        let succ_ok = if pd < month_len(py, pm) {
            (y, m, d) == (py, pm, pd + 1)
        } else if pm < 12 {
            (y, m, d) == (py, pm + 1, 1)
        } else {
            (y, m, d) == (py + 1, 1, 1)
        };
        if !succ_ok {
            return Err(format!("calendar successor broken at day {z}"));
        }
        prev = (y, m, d);
        z += 1;
    }
    if days_1900(1900, 1, 1) != 0 || days_1900(1970, 1, 1) != 25_567 {
        return Err("days_1900 anchor".into());
    }
    // well-known anchors: 2000-01-01 was a Saturday, 1900-01-01 a Monday
    if weekday_of_day1900(days_1900(2000, 1, 1)) != 5 || weekday_of_day1900(0) != 0 {
        return Err("weekday anchor".into());
    }
    if zero_tai_ns(S_GPST) != 2_524_953_619 * NS_S {
        return Err("gpst zero".into());
    }
    if j2000_ns() != 3_155_716_800 * NS_S {
        return Err("j2000".into());
    }
    let t = leap_table();
    if t[0] != (2_272_060_800, 10) || t[27] != (3_692_217_600, 37) {
        return Err("leap table anchors".into());
    }
    // leap model: image/inverse consistent on a grid around each entry
    for &(ts, _) in &t {
        for ds in -45..=45 {
            for dn in [-1i128, 0, 1] {
                let u = (ts + ds) as i128 * NS_S + dn;
                let tai = utc_to_tai(u);
                match tai_to_utc(tai) {
                    TaiToUtc::Image(u2) if u2 == u => {}
                    other => return Err(format!("leap model round trip at {u}: {other:?}")),
                }
            }
        }
    }
    // float helpers
    if f64_trunc_i128(-2.5) != -2 || f64_trunc_i128(1e30) != 1_000_000_000_000_000_019_884_624_838_656 {
        return Err("f64_trunc_i128".into());
    }
    if (rational_to_f64(1, 3) - 1.0 / 3.0).abs() > 1e-17 {
        return Err("rational_to_f64".into());
    }
    if mul_f64_trunc(7, 0.5) != Some(3) || mul_f64_trunc(-7, 0.5) != Some(-3) || mul_f64_trunc(1 << 100, 1024.0) != Some(1 << 110) || mul_f64_trunc(1 << 100, 2f64.powi(27)) != None || mul_f64_trunc(3, 1e-300) != Some(0) || mul_f64_trunc(DMAX, 1.0) != Some(DMAX) || mul_f64_trunc(1_000_000_007, 1e9) != Some(1_000_000_007_000_000_000) {
        return Err("mul_f64_trunc".into());
    }
    // abs_err_vs_rational: exact cases and a tiny negative fraction
    if abs_err_vs_rational(0.5, 1, 2) != 0.0 || abs_err_vs_rational(-0.25, -1, 4) != 0.0 || abs_err_vs_rational(1e20, 100_000_000_000_000_000_000, 1) != 0.0 {
        return Err("abs_err_vs_rational exact cases".into());
    }
    let tiny = -1.0 / 86_400_000_000_000.0_f64;
    if abs_err_vs_rational(tiny, -1, 86_400_000_000_000) > ulp(tiny) {
        return Err("abs_err_vs_rational tiny fraction".into());
    }
    if (abs_err_vs_rational(1.0 / 3.0, 1, 3) - 1.850371707708594e-17).abs() > 1e-30 {
        return Err(format!("abs_err_vs_rational 1/3: {:e}", abs_err_vs_rational(1.0 / 3.0, 1, 3)));
    }
    Ok(())
}


/// `Duration::total_nanoseconds()` as the open finding KF-total-ns-sign computes it from the two fields
/// (`centuries * NPC - nanoseconds` when the century field is <= -2). Used only by the known-finding gates:
/// a failing case is attributed to that finding only if the library's answer is exactly what the finding predicts.
pub fn kf_total_ns(d: hifitime::Duration) -> i128 {
    let (c, n) = d.to_parts();
    if c <= -2 {
        c as i128 * NPC - n as i128
    } else {
        c as i128 * NPC + n as i128
    }
}

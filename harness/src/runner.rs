//! Orchestration of one property check: known findings, regressions, sub-checks, evidence, exit code.

use crate::engine::*;
use crate::props;
use serde_json::{json, Value};
use std::collections::{BTreeMap, HashSet};
use std::time::Instant;

pub struct KnownEntry {
    pub id: String,
    pub status: String,
    pub property: String,
    pub subcheck: String,
    pub what: String,
    pub witness: Value,
    pub commit: Option<String>,
}

pub fn load_known() -> Result<Vec<KnownEntry>, String> {
    let path = format!("{}/known_findings.json", verif_root());
    let txt = match std::fs::read_to_string(&path) {
        Ok(t) => t,
        Err(_) => return Ok(vec![]),
    };
    let v: Value = serde_json::from_str(&txt).map_err(|e| format!("{path}: {e}"))?;
    let mut out = vec![];
    for e in v["findings"].as_array().cloned().unwrap_or_default() {
        out.push(KnownEntry {
            id: e["id"].as_str().unwrap_or("").to_string(),
            status: e["status"].as_str().unwrap_or("").to_string(),
            property: e["property"].as_str().unwrap_or("").to_string(),
            subcheck: e["subcheck"].as_str().unwrap_or("").to_string(),
            what: e["what"].as_str().unwrap_or("").to_string(),
            witness: e["witness"].clone(),
            commit: e["commit"].as_str().map(|s| s.to_string()),
        });
    }
    Ok(out)
}

fn env_u64(k: &str, d: u64) -> u64 {
    std::env::var(k).ok().and_then(|v| v.trim().parse::<i128>().ok()).map(|v| v as u64).unwrap_or(d)
}

pub fn run_property(id: &str, tier: Tier, only_sub: Option<String>) -> i32 {
    let t0 = Instant::now();
    let Some(meta) = props::get(id) else {
        eprintln!("INCONCLUSIVE: unknown property {id}");
        return 2;
    };
    if let Err(m) = crate::model::self_test() {
        eprintln!("INCONCLUSIVE: reference model self-test failed: {m}");
        return 2;
    }
    let seed = env_u64("VERIF_SEED", 0);
    let scale: f64 = std::env::var("VERIF_SCALE").ok().and_then(|v| v.parse().ok()).unwrap_or(1.0);
    let subs = (meta.subs)();
    let known = match load_known() {
        Ok(k) => k,
        Err(m) => {
            eprintln!("INCONCLUSIVE: {m}");
            return 2;
        }
    };

    let mut violations: Vec<(String, String)> = vec![]; // (replay path, message)
    let mut reports: Vec<SubReport> = vec![];
    // 0. sub-checks that must see a fresh process (`*.first_calls`): before the witnesses, the regressions and every
    // other sub-check build anything
    for s in subs.iter().filter(|s| s.name().ends_with(".first_calls")) {
        if only_sub.as_ref().map(|o| s.name() != o).unwrap_or(false) {
            continue;
        }
        let ctx0 = RunCtx { property: meta.id, tier, seed, active_known: HashSet::new(), strict: false, only_sub: only_sub.clone(), scale };
        let ts = Instant::now();
        let rep = s.run(&ctx0);
        eprintln!(
            "  {:<28} evals={:<10} nontrivial={:<10} excluded={:?} skipped={:?} failures={} [{:.1}s]",
            rep.name, rep.evaluations, rep.nontrivial, rep.excluded_known, rep.skipped, rep.failures.len(), ts.elapsed().as_secs_f64()
        );
        reports.push(rep);
    }
    let mut known_lines: Vec<String> = vec![];
    let mut active: HashSet<String> = HashSet::new();
    let mut regressions_replayed = 0u64;

    // 1. known findings of this property
    for k in known.iter().filter(|k| k.property == id) {
        let Some(s) = subs.iter().find(|s| s.name() == k.subcheck) else {
            eprintln!("INCONCLUSIVE: known finding {} names unknown sub-check {}", k.id, k.subcheck);
            return 2;
        };
        let res = s.replay(&k.witness);
        match (k.status.as_str(), res) {
            ("open", Err(m)) if !m.starts_with("INCONCLUSIVE") && !m.starts_with("cannot decode") => {
                let line = format!("KNOWN-FINDING: property={} {}: {}", id, k.id, k.what);
                println!("{line}");
                known_lines.push(line);
                active.insert(k.id.clone());
            }
            ("open", Ok(_)) => {
                eprintln!("note: witness of open finding {} no longer fails; its exclusion zone is lifted for this run", k.id);
            }
            ("fixed", Ok(_)) => {
                regressions_replayed += 1;
            }
            ("fixed", Err(m)) if !m.starts_with("INCONCLUSIVE") && !m.starts_with("cannot decode") => {
                let f = Failure { subcheck: k.subcheck.clone(), case: k.witness.clone(), debug: format!("witness of fixed finding {}", k.id), message: m.clone(), seed, kind: "violation" };
                let p = write_replay(id, &f);
                violations.push((p, format!("fixed finding {} is back: {}", k.id, m)));
            }
            (_, Err(m)) => {
                eprintln!("INCONCLUSIVE: replay of known finding {}: {}", k.id, m);
                return 2;
            }
            (st, _) => {
                eprintln!("INCONCLUSIVE: known finding {} has unknown status {}", k.id, st);
                return 2;
            }
        }
    }

    // 2. committed regressions
    let reg_dir = format!("{}/regressions/{}", verif_root(), id);
    let mut reg_files: Vec<_> = std::fs::read_dir(&reg_dir).map(|d| d.filter_map(|e| e.ok()).map(|e| e.path()).collect()).unwrap_or_else(|_| vec![]);
    reg_files.sort();
    let mut excluded_regressions = 0u64;
    for p in reg_files {
        if p.extension().map(|e| e != "json").unwrap_or(true) {
            continue;
        }
        let txt = std::fs::read_to_string(&p).unwrap_or_default();
        let Ok(v) = serde_json::from_str::<Value>(&txt) else {
            eprintln!("INCONCLUSIVE: cannot parse {}", p.display());
            return 2;
        };
        let sc = v["subcheck"].as_str().unwrap_or("");
        let Some(s) = subs.iter().find(|s| s.name() == sc) else {
            eprintln!("INCONCLUSIVE: regression {} names unknown sub-check {}", p.display(), sc);
            return 2;
        };
        match s.replay(&v["case"]) {
            Ok(_) => regressions_replayed += 1,
            Err(m) if m.starts_with("INCONCLUSIVE") || m.starts_with("cannot decode") => {
                eprintln!("INCONCLUSIVE: regression {}: {}", p.display(), m);
                return 2;
            }
            Err(m) => {
                if let Some(kid) = s.known_of(&v["case"]) {
                    if active.contains(kid) {
                        excluded_regressions += 1;
                        continue;
                    }
                }
                violations.push((p.display().to_string(), m));
            }
        }
    }

    // 3. the sub-checks
    let ctx = RunCtx { property: meta.id, tier, seed, active_known: active.clone(), strict: false, only_sub: only_sub.clone(), scale };
    for s in &subs {
        if s.name().ends_with(".first_calls") {
            continue;
        }
        if let Some(o) = &only_sub {
            if s.name() != o {
                continue;
            }
        }
        let ts = Instant::now();
        let rep = s.run(&ctx);
        eprintln!(
            "  {:<28} evals={:<10} nontrivial={:<10} excluded={:?} skipped={:?} failures={} [{:.1}s]",
            rep.name, rep.evaluations, rep.nontrivial, rep.excluded_known, rep.skipped, rep.failures.len(), ts.elapsed().as_secs_f64()
        );
        reports.push(rep);
    }

    // 3b. libFuzzer campaign statistics and artifacts handed over by ./check (thorough tier): a colon-separated
    // list of stats files, one per campaign. Artifacts are replayed strictly through the matching
    // `.fuzz_bytes` (text targets) or `.fuzz_cases` (structured target prop_case) sub-check.
    let mut fuzz_list: Vec<Value> = vec![];
    let mut fuzz_execs = 0u64;
    if let Ok(list) = std::env::var("VERIF_FUZZ_STATS") {
        for p in list.split(':').filter(|p| !p.is_empty()) {
            let Ok(txt) = std::fs::read_to_string(p) else { continue };
            let Ok(v) = serde_json::from_str::<Value>(&txt) else { continue };
            fuzz_execs += v["executions"].as_u64().unwrap_or(0);
            let target = v["seeds_and_artifacts_as"].as_str().or(v["target"].as_str()).unwrap_or("").to_string();
            let suffix = if target.starts_with("prop_case") { ".fuzz_cases" } else { ".fuzz_bytes" };
            let fsub = subs.iter().find(|s| s.name().ends_with(suffix));
            if let (Some(dir), Some(fsub)) = (v["artifact_dir"].as_str(), fsub) {
                let mut files: Vec<_> = std::fs::read_dir(dir).map(|d| d.filter_map(|e| e.ok()).map(|e| e.path()).collect()).unwrap_or_else(|_| vec![]);
                files.sort();
                for f in files {
                    let Ok(bytes) = std::fs::read(&f) else { continue };
                    let case = json!({"target": target, "hex": crate::props::fuzzsub::to_hex(&bytes)});
                    match fsub.replay(&case) {
                        Ok(_) => eprintln!("note: libFuzzer artifact {} does not reproduce through the hv oracle (fuzz-build only, e.g. a timeout or OOM)", f.display()),
                        Err(m) if m.starts_with("INCONCLUSIVE") => eprintln!("note: artifact {}: {}", f.display(), m),
                        Err(m) => {
                            let fl = Failure { subcheck: fsub.name().to_string(), case, debug: format!("libFuzzer artifact {:?}", String::from_utf8_lossy(&bytes)), message: m.clone(), seed, kind: "violation" };
                            let rp = write_replay(id, &fl);
                            violations.push((rp, format!("{} (libFuzzer artifact): {}", fsub.name(), m)));
                        }
                    }
                }
            }
            fuzz_list.push(v);
        }
    }
    let fuzz_json: Value = if fuzz_list.is_empty() { Value::Null } else { Value::Array(fuzz_list) };

    let mut aborts = 0;
    for r in &reports {
        // one violation line per sub-check (the smallest reproduction)
        if let Some(f) = r.failures.first() {
            if f.kind == "abort" {
                eprintln!("INCONCLUSIVE: {}: {}", f.subcheck, f.message);
                aborts += 1;
                continue;
            }
            let p = write_replay(id, f);
            violations.push((p, format!("{}: {}", f.subcheck, f.message)));
        }
    }

    // 4. evidence
    let evaluations: u64 = reports.iter().map(|r| r.evaluations).sum::<u64>() + regressions_replayed + fuzz_execs;
    let distinct: u64 = reports.iter().map(|r| r.distinct_nontrivial_hashes.len() as u64).sum();
    let capped = reports.iter().any(|r| r.distinct_capped);
    let mut samples: Vec<Value> = vec![];
    for r in &reports {
        samples.extend(r.samples.iter().take(3).cloned());
    }
    let per_sub: Vec<Value> = reports
        .iter()
        .map(|r| {
            json!({
                "subcheck": r.name,
                "generated": r.generated,
                "exhaustive": r.exhaustive,
                "evaluations": r.evaluations,
                "nontrivial": r.nontrivial,
                "distinct_nontrivial": r.distinct_nontrivial_hashes.len(),
                "distinct_capped": r.distinct_capped,
                "classes": r.classes,
                "skipped": r.skipped,
                "excluded_known": r.excluded_known,
                "failures": r.failures.len(),
            })
        })
        .collect();
    let exhaustive_all = !reports.is_empty() && reports.iter().all(|r| r.exhaustive == Some(true));
    let mut excluded_total: BTreeMap<String, u64> = BTreeMap::new();
    for r in &reports {
        for (k, v) in &r.excluded_known {
            *excluded_total.entry(k.clone()).or_insert(0) += v;
        }
    }
    let rule = format!(
        "{}{}",
        meta.rule,
        if capped { " [distinct set hit its cap in at least one shard: distinct_nontrivial is a lower bound]" } else { "" }
    );
    let ev = json!({
        "property_id": id,
        "tier": tier.name(),
        "seed": seed as i64,
        "level": "exploration",
        "coverage": {
            "evaluations": evaluations,
            "distinct_nontrivial": distinct,
            "rule": rule,
            "samples": samples,
            "exhaustive": exhaustive_all,
            "subchecks": per_sub,
            "regressions_replayed": regressions_replayed,
            "regressions_excluded_by_open_finding": excluded_regressions,
            "excluded_known": excluded_total,
            "known_findings": known_lines,
            "libfuzzer_campaign": fuzz_json,
            "plain_release_build_run": std::env::var("VERIF_PLAIN_SUMMARY").unwrap_or_else(|_| "not run".to_string()),
            "shards": SHARDS,
            "scale": scale,
        },
        "assumptions": meta.assumptions,
        "wall_s": t0.elapsed().as_secs_f64(),
        "violations": violations.len(),
    });
    if only_sub.is_none() && std::env::var("VERIF_NO_EVIDENCE").is_err() {
        let dir = format!("{}/evidence", verif_root());
        let _ = std::fs::create_dir_all(&dir);
        let path = format!("{}/{}.json", dir, id);
        if let Err(e) = std::fs::write(&path, serde_json::to_string_pretty(&ev).unwrap()) {
            eprintln!("INCONCLUSIVE: cannot write evidence {path}: {e}");
            return 2;
        }
    }

    for (p, m) in &violations {
        println!("VIOLATION property={} replay={}", id, p);
        eprintln!("  -> {}", m);
    }
    if !violations.is_empty() {
        return 1;
    }
    if aborts > 0 {
        return 2;
    }
    println!("OK property={} tier={} seed={} evaluations={} distinct_nontrivial={} wall_s={:.1}", id, tier.name(), seed, evaluations, distinct, t0.elapsed().as_secs_f64());
    0
}

pub fn replay_file(path: &str) -> i32 {
    let txt = match std::fs::read_to_string(path) {
        Ok(t) => t,
        Err(e) => {
            eprintln!("INCONCLUSIVE: cannot read {path}: {e}");
            return 2;
        }
    };
    let v: Value = match serde_json::from_str(&txt) {
        Ok(v) => v,
        Err(e) => {
            eprintln!("INCONCLUSIVE: cannot parse {path}: {e}");
            return 2;
        }
    };
    let id = v["property"].as_str().unwrap_or("");
    let sc = v["subcheck"].as_str().unwrap_or("");
    let Some(meta) = props::get(id) else {
        eprintln!("INCONCLUSIVE: unknown property {id}");
        return 2;
    };
    let subs = (meta.subs)();
    let Some(s) = subs.iter().find(|s| s.name() == sc) else {
        eprintln!("INCONCLUSIVE: unknown sub-check {sc}");
        return 2;
    };
    match s.replay(&v["case"]) {
        Ok(m) => {
            println!("REPLAY property={} subcheck={} result={}", id, sc, m);
            0
        }
        Err(m) if m.starts_with("INCONCLUSIVE") || m.starts_with("cannot decode") => {
            eprintln!("INCONCLUSIVE: {m}");
            2
        }
        Err(m) => {
            println!("VIOLATION property={} replay={}", id, path);
            println!("  -> {}: {}", sc, m);
            1
        }
    }
}

//! C01 — Duration arithmetic is exact to the nanosecond and saturates at the bounds
use crate::engine::*;
use crate::gen::*;
use crate::model::*;
use crate::{ensure, lib};
use hifitime::{Duration, Unit};
use proptest::prelude::*;
use serde::{Deserialize, Serialize};

pub const RULE: &str = "generated operand pairs / (duration, i64) / (duration, unit) with an operation tag, compared against exact i128 arithmetic then clamp; non-trivial = ns carry/borrow across a century boundary, operands of opposite sign, an operand with century field <= -2, exact result outside [MIN,MAX], result within 3 ns of a bound, or |q| > 2^32; distinct = distinct (operands, op) tuples (hash set, capped per shard: lower bound); histories (c01.chain): non-trivial = at least three executed operations and the history saturates, goes below -2 centuries, changes sign or crosses a century boundary";

pub const ASSUMPTIONS: &[&str] = &[
    "the signed count of a library value is centuries*NPC + nanoseconds read from to_parts() (definition in C02)",
    "operands are built with from_parts; a non-canonical operand is C02's failure and skipped here",
    "harness built with overflow-checks=on so that a wrap shows as a panic",
    "open finding KF-total-ns-sign (* and / by i64 read total_nanoseconds()): a failing case is excluded and counted only if an operand has century field <= -2 with non-zero nanoseconds AND the answer is exactly the one the finding predicts (the operation carried out on centuries*NPC - nanoseconds); any other answer there is a violation",
];

fn near_bound(x: i128) -> bool {
    (x - DMIN).abs() <= 3 || (x - DMAX).abs() <= 3
}

// ------------------------------------------------------------------ add / sub

#[derive(Clone, Debug, Serialize, Deserialize)]
pub struct AddSub {
    pub a: Dur,
    pub b: Dur,
    /// 0: a+b, 1: a-b, 2: a+=b, 3: a-=b
    pub op: u8,
}

fn addsub_strategy() -> BS<AddSub> {
    let pair: BS<(Dur, Dur)> = wunion(vec![
        (4, (dur_any(), dur_any()).boxed()),
        // correlated pairs: b = target - a + delta, or b = a - target + delta
        (4, (dur_canon(), prop::sample::select(vec![0i128, NPC, -NPC, 2 * NPC, DMAX, DMIN, DMAX - NPC, DMIN + NPC]), edge_centuries(), small_delta(3), any::<bool>(), any::<bool>())
            .prop_map(|(a, t, k, d, use_k, minus)| {
                let ca = a.intended();
                let target = if use_k { clamp(k * NPC) } else { t };
                let cb = if minus { ca - target + d } else { target - ca + d };
                (a, Dur::of_count(cb))
            })
            .boxed()),
        // same-century nanosecond interplay
        (2, (edge_centuries(), edge_centuries(), 0i128..NPC, small_delta(3), any::<bool>())
            .prop_map(|(k1, k2, n, d, compl)| {
                let a = clamp(k1 * NPC + n);
                let nb = if compl { (NPC - n + d).rem_euclid(NPC) } else { (n + d).rem_euclid(NPC) };
                (Dur::of_count(a), Dur::of_count(clamp(k2 * NPC + nb)))
            })
            .boxed()),
    ]);
    (pair, 0u8..4, any::<bool>())
        .prop_map(|((a, b), op, swap)| if swap { AddSub { a: b, b: a, op } } else { AddSub { a, b, op } })
        .boxed()
}

fn addsub_oracle(c: &AddSub) -> Verdict {
    let a = lib!(c.a.lib());
    let b = lib!(c.b.lib());
    if !canonical(a) || !canonical(b) {
        return Verdict::Skip("non-canonical operand (C02's subject)");
    }
    let (ca, cb) = (count(a), count(b));
    let exact = if c.op % 2 == 0 { ca + cb } else { ca - cb };
    let want = clamp(exact);
    let r = match c.op {
        0 => lib!(a + b),
        1 => lib!(a - b),
        2 => lib!({
            let mut x = a;
            x += b;
            x
        }),
        _ => lib!({
            let mut x = a;
            x -= b;
            x
        }),
    };
    ensure!(canonical(r), "result {:?} of op {} on {:?},{:?} is not canonical", r.to_parts(), c.op, a.to_parts(), b.to_parts());
    ensure!(
        count(r) == want,
        "op {} on a={:?} (count {}) b={:?} (count {}): got parts {:?} (count {}), want count {} (exact {})",
        ["a+b", "a-b", "a+=b", "a-=b"][c.op as usize], a.to_parts(), ca, b.to_parts(), cb, r.to_parts(), count(r), want, exact
    );
    let (na, nb) = (ca.rem_euclid(NPC), cb.rem_euclid(NPC));
    let class = if exact > DMAX {
        "saturate+"
    } else if exact < DMIN {
        "saturate-"
    } else if near_bound(exact) {
        "near-bound"
    } else if a.to_parts().0 <= -2 || b.to_parts().0 <= -2 {
        "century<=-2"
    } else if (ca < 0) != (cb < 0) && ca != 0 && cb != 0 {
        "mixed-sign"
    } else if (c.op % 2 == 0 && na + nb >= NPC) || (c.op % 2 == 1 && na < nb) {
        "carry/borrow"
    } else {
        "plain"
    };
    Verdict::Pass(class, class != "plain")
}

// ------------------------------------------------------------------ neg / abs

#[derive(Clone, Debug, Serialize, Deserialize)]
pub struct NegAbs {
    pub a: Dur,
    /// 0: -a, 1: a.abs()
    pub op: u8,
}

fn negabs_strategy() -> BS<NegAbs> {
    (dur_any(), 0u8..2).prop_map(|(a, op)| NegAbs { a, op }).boxed()
}

fn negabs_oracle(c: &NegAbs) -> Verdict {
    let a = lib!(c.a.lib());
    if !canonical(a) {
        return Verdict::Skip("non-canonical operand (C02's subject)");
    }
    let ca = count(a);
    let exact = if c.op == 0 { -ca } else { ca.abs() };
    let want = clamp(exact);
    let r = if c.op == 0 { lib!(-a) } else { lib!(a.abs()) };
    ensure!(canonical(r), "result {:?} not canonical", r.to_parts());
    ensure!(
        count(r) == want,
        "{} of {:?} (count {}): got {:?} (count {}), want count {}",
        if c.op == 0 { "neg" } else { "abs" }, a.to_parts(), ca, r.to_parts(), count(r), want
    );
    let class = if exact != want {
        "saturate"
    } else if near_bound(ca) {
        "near-bound"
    } else if a.to_parts().0 <= -2 {
        "century<=-2"
    } else if ca < 0 {
        "negative"
    } else if ca.rem_euclid(NPC) == 0 {
        "century-multiple"
    } else {
        "plain"
    };
    Verdict::Pass(class, class != "plain")
}

// ------------------------------------------------------------------ mul / div by i64

#[derive(Clone, Debug, Serialize, Deserialize)]
pub struct MulDiv {
    pub a: Dur,
    pub q: i64,
    /// 0: a*q, 1: q*a, 2: a/q
    pub op: u8,
}

fn muldiv_strategy() -> BS<MulDiv> {
    let aq: BS<(Dur, i64)> = wunion(vec![
        (5, (dur_any(), i64_any()).boxed()),
        // q chosen so that a*q lands near a bound or a century boundary
        (3, (dur_canon(), prop::sample::select(vec![DMAX, DMIN, NPC, -NPC, 2 * NPC, 1000 * NPC]), -3i128..=3)
            .prop_map(|(a, t, d)| {
                let ca = a.intended();
                let q = if ca == 0 { d } else { t / ca + d };
                (a, q.clamp(i64::MIN as i128, i64::MAX as i128) as i64)
            })
            .boxed()),
        // a an exact multiple of q (division exact) or one off
        (2, (i64_any(), log_mag(40), small_delta(2), any::<bool>())
            .prop_map(|(q, k, d, s)| {
                let v = (q as i128).saturating_mul(k) + d;
                (Dur::of_count(if s { -v } else { v }), q)
            })
            .boxed()),
    ]);
    (aq, 0u8..3).prop_map(|((a, q), op)| MulDiv { a, q, op }).boxed()
}

/// input signature of the open finding on `total_nanoseconds` (century field <= -2, ns != 0):
/// Mul/Div read total_nanoseconds() of the duration operand and of `q * Unit::Nanosecond`
pub fn reads_bad_total_ns(d: Duration) -> bool {
    let (c, n) = d.to_parts();
    c <= -2 && n != 0
}

fn muldiv_known(c: &MulDiv) -> Option<&'static str> {
    let a = c.a.lib();
    if !(reads_bad_total_ns(a) || reads_bad_total_ns(mk(c.q as i128))) || !canonical(a) {
        return None;
    }
    // the failure is the known one only if the answer is exactly what the finding predicts: the operation carried
    // out on total_nanoseconds() as the finding computes it
    let (ta, tq) = (kf_total_ns(a), kf_total_ns(mk(c.q as i128)));
    let pred = match c.op {
        0 | 1 => ta.saturating_mul(tq),
        _ => {
            if tq == 0 {
                return None;
            }
            ta.saturating_div(tq)
        }
    };
    let q = c.q;
    let op = c.op;
    match guard(move || match op {
        0 => a * q,
        1 => q * a,
        _ => a / q,
    }) {
        Ok(r) if canonical(r) && count(r) == clamp(pred) => Some("KF-total-ns-sign"),
        _ => None,
    }
}

fn muldiv_oracle(c: &MulDiv) -> Verdict {
    if c.op == 2 && c.q == 0 {
        return Verdict::Skip("division by zero excluded by the statement");
    }
    let a = lib!(c.a.lib());
    if !canonical(a) {
        return Verdict::Skip("non-canonical operand (C02's subject)");
    }
    let ca = count(a);
    let q = c.q as i128;
    let exact: Option<i128> = if c.op < 2 { ca.checked_mul(q) } else { Some(ca / q) };
    let want = match exact {
        Some(x) => clamp(x),
        None => {
            if (ca < 0) != (q < 0) {
                DMIN
            } else {
                DMAX
            }
        }
    };
    let r = match c.op {
        0 => lib!(a * c.q),
        1 => lib!(c.q * a),
        _ => lib!(a / c.q),
    };
    ensure!(canonical(r), "result {:?} not canonical", r.to_parts());
    ensure!(
        count(r) == want,
        "{} with a={:?} (count {}), q={}: got {:?} (count {}), want count {}",
        ["a*q", "q*a", "a/q"][c.op as usize], a.to_parts(), ca, c.q, r.to_parts(), count(r), want
    );
    let class = if exact.map(|x| x != want).unwrap_or(true) {
        "saturate"
    } else if near_bound(want) {
        "near-bound"
    } else if a.to_parts().0 <= -2 {
        "century<=-2"
    } else if q.abs() > (1i128 << 32) {
        "|q|>2^32"
    } else if (ca < 0) != (q < 0) && ca != 0 {
        "mixed-sign"
    } else if c.op == 2 && ca % q != 0 {
        "inexact-division"
    } else {
        "plain"
    };
    Verdict::Pass(class, class != "plain")
}

// ------------------------------------------------------------------ unit operands

#[derive(Clone, Debug, Serialize, Deserialize)]
pub struct UnitOp {
    pub a: Dur,
    pub u: usize,
    pub v: usize,
    /// 0: a+U 1: a-U 2: a+=U 3: a-=U 4: U+V 5: U-V
    pub op: u8,
}

fn unitop_strategy() -> BS<UnitOp> {
    let a: BS<Dur> = wunion(vec![
        (3, dur_any()),
        // a within a few ns of k*NPC -/+ unit or of a bound -/+ unit
        (3, (edge_centuries(), 0usize..9, any::<bool>(), small_delta(3))
            .prop_map(|(k, u, s, d)| Dur::of_count(clamp(k * NPC) + if s { UNIT_NS[u] } else { -UNIT_NS[u] } + d))
            .boxed()),
    ]);
    let free = (a, 0usize..9, 0usize..9, 0u8..6).prop_map(|(a, u, v, op)| UnitOp { a, u, v, op }).boxed();
    // the duration is exactly (or within 2 ns of) -2, -1, 0, 1, 2 times the unit it is combined with
    let same_unit = (0usize..9, -2i128..=2, small_delta(2), 0usize..9, 0u8..6).prop_map(|(u, k, d, v, op)| UnitOp { a: Dur::of_count(k * UNIT_NS[u] + d), u, v, op }).boxed();
    wunion(vec![(5, free), (1, same_unit)])
}

fn unitop_oracle(c: &UnitOp) -> Verdict {
    let a = lib!(c.a.lib());
    if !canonical(a) {
        return Verdict::Skip("non-canonical operand (C02's subject)");
    }
    let ca = count(a);
    let (u, v): (Unit, Unit) = (UNITS[c.u], UNITS[c.v]);
    let (un, vn) = (UNIT_NS[c.u], UNIT_NS[c.v]);
    let (exact, r, plain) = match c.op {
        0 => (ca + un, lib!(a + u), lib!(a + mk(un))),
        1 => (ca - un, lib!(a - u), lib!(a - mk(un))),
        2 => (
            ca + un,
            lib!({
                let mut x = a;
                x += u;
                x
            }),
            lib!(a + mk(un)),
        ),
        3 => (
            ca - un,
            lib!({
                let mut x = a;
                x -= u;
                x
            }),
            lib!(a - mk(un)),
        ),
        4 => (un + vn, lib!(u + v), lib!(mk(un) + mk(vn))),
        _ => (un - vn, lib!(u - v), lib!(mk(un) - mk(vn))),
    };
    let want = clamp(exact);
    ensure!(canonical(r), "result {:?} not canonical", r.to_parts());
    ensure!(
        count(r) == want,
        "unit op {} a={:?} (count {}) u={:?} v={:?}: got {:?} (count {}), want {}",
        c.op, a.to_parts(), ca, u, v, r.to_parts(), count(r), want
    );
    ensure!(
        r.to_parts() == plain.to_parts(),
        "unit form differs from plain duration form: {:?} vs {:?}",
        r.to_parts(), plain.to_parts()
    );
    let class = if exact != want {
        "saturate"
    } else if near_bound(exact) {
        "near-bound"
    } else if c.op < 4 && a.to_parts().0 <= -2 {
        "century<=-2"
    } else if c.op < 4 && ca.div_euclid(NPC) != exact.div_euclid(NPC) {
        "carry/borrow"
    } else if c.op >= 4 {
        "unit-unit"
    } else if ca < 0 {
        "negative"
    } else {
        "plain"
    };
    Verdict::Pass(class, class != "plain")
}

pub fn subs() -> Vec<Box<dyn DynSub>> {
    vec![
        sub(Sub { name: "c01.addsub", source: Source::Gen(addsub_strategy, 6_400_000, 60_000_000), oracle: addsub_oracle, known: no_known, hang_is_violation: false }),
        sub(Sub { name: "c01.negabs", source: Source::Gen(negabs_strategy, 1_600_000, 10_000_000), oracle: negabs_oracle, known: no_known, hang_is_violation: false }),
        sub(Sub { name: "c01.muldiv", source: Source::Gen(muldiv_strategy, 4_800_000, 40_000_000), oracle: muldiv_oracle, known: muldiv_known, hang_is_violation: false }),
        sub(Sub { name: "c01.unitop", source: Source::Gen(unitop_strategy, 3_200_000, 20_000_000), oracle: unitop_oracle, known: no_known, hang_is_violation: false }),
        crate::props::chain::c01_chain(),
        crate::props::fuzzsub::fc01(),
    ]
}

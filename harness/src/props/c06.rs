//! C06 — UTC <-> TAI follows the IERS leap-second table exactly, in both directions
use crate::engine::*;
use crate::gen::*;
use crate::model::*;
use crate::{ensure, lib};
use hifitime::leap_seconds::{LatestLeapSeconds, LeapSecondsFile};
use hifitime::{Epoch, TimeScale};
use proptest::prelude::*;
use serde::{Deserialize, Serialize};

pub const RULE: &str = "exhaustive grid (28 entries x both axes x {-40..+40 s} x {-1,0,+1 ns}) plus generated UTC and TAI instants (ns resolution inside +-40 s and +-1 us of every entry on the UTC axis and both TAI images, between entries, 1958-1972, before 1900, up to year 9999 and +-30 000 years), each converted in both directions and compared with u + dat(u) from the harness's own table (28 civil dates -> seconds via days-from-civil); table rows and generated IERS-format provider files compared row by row; non-trivial = instant within 40 s of an entry (either axis), or before 1972, or provider != built-in; distinct = distinct case tuples (hash set, capped: lower bound); walks (c06.chain): non-trivial = at least two conversions and a state within 41 s of a leap entry, three or more scales, or a state before 1900";

pub const ASSUMPTIONS: &[&str] = &[
    "the reference table is the list of 28 civil dates and offsets in harness/src/model.rs (public IERS facts); it is compared with /repo/data/leap-seconds.list and the DELTET/DELTA_AT block of /repo/naif0012.txt parsed by the harness's own parsers",
    "a TAI instant inside an inserted leap second has no UTC count of its own: the result is only required to lie in [ts - step, ts + step)",
    "monotonicity of TAI->UTC is asserted on pairs of image instants; the 1 s step back at the inserted second itself is inherent to a count-based UTC and not flagged",
    "leap_seconds accessors are compared absolutely only more than 40 s away from every entry (the statement does not fix on which axis 'up to this epoch' is read); differentially (provider vs built-in) everywhere",
];

// ---------------------------------------------------------------- table rows (enumerated)
#[derive(Clone, Debug, Serialize, Deserialize)]
pub struct Row {
    pub k: usize,
}

fn row_enum(_t: Tier, shard: usize, sink: &mut dyn FnMut(Row) -> bool) {
    for k in 0..48 {
        if k % SHARDS == shard && !sink(Row { k }) {
            return;
        }
    }
}

fn repo_root() -> String {
    std::env::var("VERIF_REPO").unwrap_or_else(|_| "/repo".to_string())
}

fn row_oracle(c: &Row) -> Verdict {
    let model = leap_table();
    let fwd: Vec<_> = lib!(LatestLeapSeconds::default().collect::<Vec<_>>());
    let rev: Vec<_> = lib!(LatestLeapSeconds::default().rev().collect::<Vec<_>>());
    let iers: Vec<_> = fwd.iter().filter(|l| l.announced_by_iers).collect();
    match c.k {
        0..=27 => {
            ensure!(iers.len() == 28, "built-in table lists {} IERS-announced leap seconds, want 28", iers.len());
            let (ts, dat) = model[c.k];
            let row = iers[c.k];
            ensure!(row.timestamp_tai_s == ts as f64 && row.delta_at == dat as f64, "built-in IERS row {} is ({}, {}), want ({}, {})", c.k, row.timestamp_tai_s, row.delta_at, ts, dat);
        }
        28 => {
            // forward and reverse iteration agree, sorted strictly increasing, non-IERS rows all before 1972
            ensure!(fwd.len() == rev.len(), "forward and reverse iteration differ in length");
            for (a, b) in fwd.iter().zip(rev.iter().rev()) {
                ensure!(a == b, "forward and reverse iteration disagree: {:?} vs {:?}", a, b);
            }
            for w in fwd.windows(2) {
                ensure!(w[0].timestamp_tai_s < w[1].timestamp_tai_s, "table not strictly increasing at {:?}", w[1]);
            }
            for l in fwd.iter().filter(|l| !l.announced_by_iers) {
                ensure!(l.timestamp_tai_s < model[0].0 as f64, "non-IERS row {:?} at or after 1972", l);
            }
            // Index
            let t = LatestLeapSeconds::default();
            for (i, l) in fwd.iter().enumerate() {
                ensure!(lib!(t[i]) == *l, "Index[{}] differs from iteration", i);
            }
        }
        29 => {
            // shipped IERS file, harness parser
            let txt = match std::fs::read_to_string(format!("{}/data/leap-seconds.list", repo_root())) {
                Ok(t) => t,
                Err(e) => return Verdict::Fail(format!("cannot read data/leap-seconds.list: {e}")),
            };
            match parse_iers_list(&txt) {
                Ok(rows) => ensure!(rows == model, "data/leap-seconds.list differs from the IERS table: {:?}", rows),
                Err(m) => return Verdict::Fail(format!("data/leap-seconds.list: {m}")),
            }
        }
        30 => {
            let txt = match std::fs::read_to_string(format!("{}/naif0012.txt", repo_root())) {
                Ok(t) => t,
                Err(e) => return Verdict::Fail(format!("cannot read naif0012.txt: {e}")),
            };
            match parse_naif_lsk(&txt) {
                Ok(rows) => ensure!(rows == model, "naif0012.txt DELTA_AT differs from the IERS table: {:?}", rows),
                Err(m) => return Verdict::Fail(format!("naif0012.txt: {m}")),
            }
            match parse_naif_consts(&txt) {
                Ok((k, eb, m0, m1)) => ensure!(k == NAIF_K && eb == NAIF_EB && m0 == NAIF_M0 && m1 == NAIF_M1, "NAIF constants in the kernel differ from the statement's"),
                Err(m) => return Verdict::Fail(format!("naif0012.txt: {m}")),
            }
        }
        31 => {
            // shipped IERS file through the library's provider
            let p = match lib!(LeapSecondsFile::from_path(format!("{}/data/leap-seconds.list", repo_root()))) {
                Ok(p) => p,
                Err(e) => return Verdict::Fail(format!("LeapSecondsFile::from_path on the shipped file: {e:?}")),
            };
            let rows: Vec<_> = p.clone().collect();
            ensure!(rows.len() == 28, "provider from shipped file has {} rows", rows.len());
            for (i, r) in rows.iter().enumerate() {
                ensure!(r.timestamp_tai_s == model[i].0 as f64 && r.delta_at == model[i].1 as f64 && r.announced_by_iers, "file provider row {} = {:?}", i, r);
            }
            let rrows: Vec<_> = p.clone().rev().collect();
            ensure!(rrows.iter().rev().cloned().collect::<Vec<_>>() == rows, "file provider reverse iteration differs");
        }
        _ => {
            // 32..47: the step at each of 16 evenly chosen entries is exactly one second and dat grows by one
            let i = (c.k - 32) * 27 / 15;
            if i > 0 {
                ensure!(model[i].1 == model[i - 1].1 + 1, "model table step");
                ensure!(iers[i].delta_at == iers[i - 1].delta_at + 1.0, "built-in table: offset does not grow by one at row {}", i);
            }
        }
    }
    Verdict::Pass("table", true)
}

// ---------------------------------------------------------------- instants
#[derive(Clone, Debug, Serialize, Deserialize)]
pub struct Inst {
    /// count on the chosen axis (ns from 1900-01-01)
    pub t: i128,
    /// false: the count is a UTC count; true: a TAI count
    pub tai_axis: bool,
    /// positive separation for the ordered pair
    pub delta: i128,
    /// a uniform scale to route the conversion through as well
    pub via: usize,
}

fn grid_enum(_t: Tier, shard: usize, sink: &mut dyn FnMut(Inst) -> bool) {
    let entries = leap_entries_ns();
    let mut i = 0usize;
    for (ts, before, after) in entries {
        for tai_axis in [false, true] {
            let bases: Vec<i128> = if tai_axis { vec![ts + before as i128 * NS_S, ts + after as i128 * NS_S, ts] } else { vec![ts] };
            for b in bases {
                for ds in -40i128..=40 {
                    for dn in [-1i128, 0, 1] {
                        i += 1;
                        if i % SHARDS != shard {
                            continue;
                        }
                        let c = Inst { t: b + ds * NS_S + dn, tai_axis, delta: 1, via: UNIFORM[i % 6] };
                        if !sink(c) {
                            return;
                        }
                    }
                }
            }
        }
    }
}

fn inst_strategy() -> BS<Inst> {
    let entries = leap_entries_ns();
    let n = entries.len();
    let t = wunion(vec![
        (5, (0..n, 0u8..3, near_offset()).prop_map(move |(i, ax, off)| {
            let (ts, before, after) = entries[i];
            ts + match ax { 0 => 0, 1 => before, _ => after } as i128 * NS_S + off
        }).boxed()),
        (2, (days_1900(1972, 1, 1) as i128 * NS_D..days_1900(2030, 1, 1) as i128 * NS_D).boxed()),
        (1, (days_1900(1958, 1, 1) as i128 * NS_D..days_1900(1972, 1, 2) as i128 * NS_D).boxed()),
        (2, tai_count_any()),
        // within +-40 s of a century boundary of the count (where the century field rolls over), either axis
        (2, (-20i128..=81, near_offset()).prop_map(|(k, off)| k * NPC + off).boxed()),
        (1, (days_1900(2017, 1, 1) as i128 * NS_D..days_1900(9999, 12, 31) as i128 * NS_D).boxed()),
        (1, (days_1900(-30_000, 1, 1) as i128 * NS_D..days_1900(1900, 1, 1) as i128 * NS_D).boxed()),
    ]);
    let delta = prop_oneof![Just(1i128), (1i128..1000), (1i128..3 * NS_S), (1i128..100 * NS_D)];
    (t, any::<bool>(), delta, 0usize..6).prop_map(|(t, tai_axis, delta, via)| Inst { t, tai_axis, delta, via: UNIFORM[via] }).boxed()
}

fn lib_utc_to_tai(u: i128) -> Result<i128, String> {
    guard(|| {
        let e = Epoch::from_duration(mk(u), TimeScale::UTC);
        let r = e.to_time_scale(TimeScale::TAI);
        // the dedicated UTC constructor is the same epoch
        let e2 = Epoch::from_utc_duration(mk(u));
        let same = e2.time_scale == TimeScale::UTC && e2.duration.to_parts() == e.duration.to_parts() && e2.to_tai_duration().to_parts() == r.duration.to_parts();
        (r, e.to_tai_duration(), e.to_duration_in_time_scale(TimeScale::TAI), same)
    })
    .and_then(|(r, d1, d2, same)| {
        if !same {
            return Err("Epoch::from_utc_duration(d) differs from Epoch::from_duration(d, UTC) (its parts, scale or TAI duration)".into());
        }
        if r.time_scale != TimeScale::TAI {
            return Err("to_time_scale(TAI) did not return a TAI epoch".into());
        }
        if d1.to_parts() != r.duration.to_parts() || d2.to_parts() != r.duration.to_parts() {
            return Err("to_tai_duration / to_duration_in_time_scale disagree with to_time_scale".into());
        }
        if !canonical(r.duration) {
            return Err(format!("UTC->TAI result {:?} is not in canonical form", r.duration.to_parts()));
        }
        Ok(count(r.duration))
    })
}

fn lib_tai_to_utc(t: i128) -> Result<i128, String> {
    guard(|| {
        let e = Epoch::from_duration(mk(t), TimeScale::TAI);
        let r = e.to_time_scale(TimeScale::UTC);
        (r, e.to_utc_duration())
    })
    .and_then(|(r, d1)| {
        if r.time_scale != TimeScale::UTC {
            return Err("to_time_scale(UTC) did not return a UTC epoch".into());
        }
        if d1.to_parts() != r.duration.to_parts() {
            return Err("to_utc_duration disagrees with to_time_scale".into());
        }
        if !canonical(r.duration) {
            return Err(format!("TAI->UTC result {:?} is not in canonical form", r.duration.to_parts()));
        }
        Ok(count(r.duration))
    })
}

fn inst_oracle(c: &Inst) -> Verdict {
    let near = dist_to_leap(if c.tai_axis { c.t } else { utc_to_tai(c.t) }) <= 41 * NS_S;
    let pre72 = c.t < leap_entries_ns()[0].0;
    let class = if near { "within-40s-of-entry" } else if pre72 { "pre-1972" } else { "plain" };
    if !c.tai_axis {
        let u = c.t;
        let want = utc_to_tai(u);
        let got = match lib_utc_to_tai(u) { Ok(v) => v, Err(m) => return Verdict::Fail(m) };
        ensure!(got == want, "UTC {} -> TAI: got {}, want {} (offset {} s)", u, got, want, dat_at_utc(u));
        // back
        let back = match lib_tai_to_utc(got) { Ok(v) => v, Err(m) => return Verdict::Fail(m) };
        ensure!(back == u, "UTC {} -> TAI {} -> UTC gives {}", u, got, back);
        // strictly increasing
        let got2 = match lib_utc_to_tai(u + c.delta) { Ok(v) => v, Err(m) => return Verdict::Fail(m) };
        ensure!(got2 > got, "UTC->TAI not strictly increasing: {} -> {}, {} -> {}", u, got, u + c.delta, got2);
        // through another uniform scale
        let e = Epoch::from_duration(mk(u), TimeScale::UTC);
        let v = lib!(e.to_time_scale(SCALES[c.via]));
        ensure!(count(v.duration) == want - zero_tai_ns(c.via), "UTC {} -> {}: got {}, want {}", u, SCALE_NAMES[c.via], count(v.duration), want - zero_tai_ns(c.via));
        let vb = lib!(v.to_time_scale(TimeScale::UTC));
        ensure!(count(vb.duration) == u, "UTC {} -> {} -> UTC gives {}", u, SCALE_NAMES[c.via], count(vb.duration));
    } else {
        let t = c.t;
        let got = match lib_tai_to_utc(t) { Ok(v) => v, Err(m) => return Verdict::Fail(m) };
        match tai_to_utc(t) {
            TaiToUtc::Image(u) => {
                ensure!(got == u, "TAI {} -> UTC: got {}, want {} (the unique UTC count whose TAI image it is)", t, got, u);
                // never goes backwards, on image pairs
                if let TaiToUtc::Image(u2) = tai_to_utc(t + c.delta) {
                    let got2 = match lib_tai_to_utc(t + c.delta) { Ok(v) => v, Err(m) => return Verdict::Fail(m) };
                    ensure!(got2 == u2 && got2 > got, "TAI->UTC goes backwards or stalls between image instants {} and {}: {} then {}", t, t + c.delta, got, got2);
                }
                // through another uniform scale
                let e = Epoch::from_duration(mk(t - zero_tai_ns(c.via)), SCALES[c.via]);
                let v = lib!(e.to_time_scale(TimeScale::UTC));
                ensure!(count(v.duration) == u, "{} (TAI {}) -> UTC: got {}, want {}", SCALE_NAMES[c.via], t, count(v.duration), u);
                // the Duration-valued UTC views are the same UTC count shifted by constants
                let jde = lib!(e.to_jde_utc_duration());
                ensure!(count(jde) == u + 2_415_020 * NS_D + NS_D / 2, "to_jde_utc_duration of {} (TAI {}) = {}, want UTC count + 2 415 020.5 d = {}", SCALE_NAMES[c.via], t, count(jde), u + 2_415_020 * NS_D + NS_D / 2);
                let unix = lib!(e.to_unix(hifitime::Unit::Second));
                let want_unix = (u - 2_208_988_800 * NS_S) as f64 / 1e9;
                ensure!((unix - want_unix).abs() <= 4.0 * ulp(want_unix.abs().max(1.0)) + 1e-9, "to_unix(Second) of {} (TAI {}) = {}, want {}", SCALE_NAMES[c.via], t, unix, want_unix);
            }
            TaiToUtc::InsideLeap { ts_ns, step_ns } => {
                ensure!(got >= ts_ns - step_ns && got < ts_ns + step_ns, "TAI {} (inside the second inserted before UTC {}) -> UTC {}: outside [ts - step, ts + step)", t, ts_ns, got);
                return Verdict::Pass("inside-inserted-second", true);
            }
        }
    }
    Verdict::Pass(class, class != "plain")
}

// ---------------------------------------------------------------- accessors
#[derive(Clone, Debug, Serialize, Deserialize)]
pub struct Acc {
    pub e: Ep,
}

fn acc_strategy() -> BS<Acc> {
    epoch_any(&ALL_SCALES).prop_map(|e| Acc { e }).boxed()
}

fn acc_oracle(c: &Acc) -> Verdict {
    let e = c.e.lib();
    let tai = to_tai(c.e.s, c.e.c);
    let d = dist_to_leap(tai);
    let a_true = lib!(e.leap_seconds(true));
    let a_false = lib!(e.leap_seconds(false));
    let a_iers = lib!(e.leap_seconds_iers());
    let a_with = lib!(e.leap_seconds_with(true, LatestLeapSeconds::default()));
    ensure!(a_true == a_with, "leap_seconds(true) {:?} != leap_seconds_with(true, built-in) {:?}", a_true, a_with);
    ensure!(a_iers == a_true.map(|v| v as i32).unwrap_or(0), "leap_seconds_iers {} inconsistent with leap_seconds(true) {:?}", a_iers, a_true);
    if d > 41 * NS_S {
        // far from every entry: the offset in force, whichever axis it is read on
        let want = match tai_to_utc(tai) { TaiToUtc::Image(u) => dat_at_utc(u), _ => unreachable!() };
        let t1972 = leap_entries_ns()[0].0;
        if tai < t1972 {
            ensure!(a_true.is_none() && a_iers == 0, "before 1972 with iers_only: {:?} / {}", a_true, a_iers);
        } else {
            ensure!(a_true == Some(want as f64), "leap_seconds(true) = {:?}, want {}", a_true, want);
            ensure!(a_iers == want as i32, "leap_seconds_iers = {}, want {}", a_iers, want);
            ensure!(a_false == a_true, "leap_seconds(false) = {:?} differs from leap_seconds(true) = {:?} after 1972", a_false, a_true);
        }
        if tai < days_1900(1960, 1, 1) as i128 * NS_D - 41 * NS_S {
            ensure!(a_false.is_none(), "leap_seconds(false) before 1960 = {:?}", a_false);
        }
    }
    let class = if d <= 41 * NS_S { "within-40s-of-entry" } else if tai < leap_entries_ns()[0].0 { "pre-1972" } else if c.e.s != S_TAI { "other-scale" } else { "plain" };
    Verdict::Pass(class, class != "plain")
}

// ---------------------------------------------------------------- providers from generated files
#[derive(Clone, Debug, Serialize, Deserialize)]
pub struct Prov {
    /// number of table rows in the file (prefix of the table)
    pub k: usize,
    /// decoration choices
    pub deco: Vec<u8>,
    pub epochs: Vec<Ep>,
    /// hypothetical later rows (only after the full table): semesters after 2017-01-01, each adding one second
    #[serde(default)]
    pub extra: Vec<u16>,
    /// CR LF line terminators
    #[serde(default)]
    pub crlf: bool,
    /// comment lines added to the header (the IERS file itself carries ~200 of them; up to ~1000 here: > 64 KiB)
    #[serde(default)]
    pub padding: u16,
}

/// the file's table: the first k rows of the IERS table, then the hypothetical later rows
fn file_table(c: &Prov) -> Vec<(i64, i64)> {
    let mut t: Vec<(i64, i64)> = leap_table().into_iter().take(c.k).collect();
    if c.k == 28 {
        let mut sem = 0i64; // semesters after 2017-01-01
        let mut dat = 37;
        for gap in &c.extra {
            sem += 1 + *gap as i64;
            let (y, m) = (2017 + sem / 2, if sem % 2 == 0 { 1 } else { 7 });
            dat += 1;
            t.push((days_1900(y, m, 1) * 86_400, dat));
        }
    }
    t
}

fn prov_strategy() -> BS<Prov> {
    // later rows up to year ~2400: timestamps beyond 2^32 s (7 February 2036) included
    let extra = prop_oneof![3 => Just(vec![]), 2 => prop::collection::vec(prop_oneof![4 => 0u16..6, 1 => 0u16..200], 1..8)];
    (prop_oneof![3 => Just(28usize), 2 => 1usize..=28], prop::collection::vec(any::<u8>(), 0..80), prop::collection::vec(epoch_any(&ALL_SCALES), 1..40), extra, prop::bool::weighted(0.2))
        .prop_map(|(k, deco, epochs, extra, crlf)| { let padding = if deco.len() % 7 == 0 { 100 + (deco.len() as u16 * 37) % 900 } else { 0 }; Prov { k, deco, epochs, extra, crlf, padding } })
        .boxed()
}

fn render_file(c: &Prov) -> String {
    let table = file_table(c);
    let nrows = table.len();
    let mut out = String::new();
    let mut di = 0usize;
    let mut next = |n: u8| -> u8 {
        let v = c.deco.get(di).copied().unwrap_or(0);
        di += 1;
        v % n
    };
    let comments = ["#", "# comment", "#$\t 3676924800", "#@\t3707596800", "#h\t16edd0f0 3666e39d 3a9d6e0c c0a3b0c8", "#\tUpdated through IERS Bulletin C", "# 2272060800 10 not data"];
    for _ in 0..next(4) {
        out.push_str(comments[next(comments.len() as u8) as usize]);
        out.push('\n');
    }
    for i in 0..c.padding {
        out.push_str(&format!("#\tThe following line shows the last update of this file in NTP timestamp ({:05})\n", i));
    }
    for (i, (ts, dat)) in table.iter().take(nrows).enumerate() {
        let _ = i;
        match next(6) {
            0 => out.push('\n'),
            1 => {
                out.push_str(comments[next(comments.len() as u8) as usize]);
                out.push('\n');
            }
            _ => {}
        }
        let sep = match next(4) { 0 => " ", 1 => "  \t ", 2 => "\t\t", _ => "\t" };
        let trail = match next(4) { 0 => "", 1 => "\t# 1 Jan 1972", 2 => " #", _ => "\t# 1 Jul 2012 " };
        out.push_str(&format!("{ts}{sep}{dat}{trail}\n"));
    }
    for _ in 0..next(3) {
        out.push_str(comments[next(comments.len() as u8) as usize]);
        out.push('\n');
    }
    if next(2) == 0 {
        out.pop(); // no trailing newline
    }
    if c.crlf {
        out = out.replace('\n', "\r\n");
    }
    out
}

fn prov_oracle(c: &Prov) -> Verdict {
    use std::hash::{Hash, Hasher};
    let text = render_file(c);
    let mut h = std::collections::hash_map::DefaultHasher::new();
    text.hash(&mut h);
    format!("{:?}", std::thread::current().id()).hash(&mut h);
    let dir = std::env::temp_dir().join(format!("hv-c06-{}", std::process::id()));
    if std::fs::create_dir_all(&dir).is_err() {
        return Verdict::Skip("cannot create scratch directory");
    }
    let path = dir.join(format!("{:016x}.list", h.finish()));
    if std::fs::write(&path, &text).is_err() {
        return Verdict::Skip("cannot write scratch file");
    }
    let res = guard(|| LeapSecondsFile::from_path(&path));
    let _ = std::fs::remove_file(&path);
    let p = match res {
        Ok(Ok(p)) => p,
        Ok(Err(e)) => return Verdict::Fail(format!("from_path rejected a well-formed IERS file: {e:?}\n{text}")),
        Err(m) => return Verdict::Fail(m),
    };
    let table: Vec<(i64, i64)> = file_table(c);
    let rows: Vec<_> = lib!(p.clone().collect::<Vec<_>>());
    ensure!(rows.len() == table.len(), "provider has {} rows, file has {}\n{}", rows.len(), table.len(), text);
    for (i, r) in rows.iter().enumerate() {
        ensure!(r.timestamp_tai_s == table[i].0 as f64 && r.delta_at == table[i].1 as f64 && r.announced_by_iers, "row {} = {:?}, want {:?}", i, r, table[i]);
        ensure!(lib!(p[i]) == *r, "Index[{}] differs from iteration", i);
    }
    let rrows: Vec<_> = lib!(p.clone().rev().collect::<Vec<_>>());
    ensure!(rrows.iter().rev().cloned().collect::<Vec<_>>() == rows, "reverse iteration of the provider differs from forward iteration");
    for ep in &c.epochs {
        let e = ep.lib();
        let got = lib!(e.leap_seconds_with(true, p.clone()));
        let got_f = lib!(e.leap_seconds_with(false, p.clone()));
        ensure!(got == got_f, "file provider: iers_only flag changes the answer ({:?} vs {:?})", got, got_f);
        let before_extra = table.len() <= 28 || to_tai(ep.s, ep.c) < (table[28].0 as i128 - 100) * NS_S;
        if c.k == 28 && before_extra {
            let builtin = lib!(e.leap_seconds(true));
            ensure!(got == builtin, "provider loaded from an identical table answers {:?}, built-in table {:?} for {} {}", got, builtin, SCALE_NAMES[ep.s], ep.c);
        }
        let tai = to_tai(ep.s, ep.c);
        // absolute, away from the entries
        let far = table.iter().all(|(ts, dat)| [0i64, *dat, dat - 1].iter().all(|o| (tai - (*ts + *o) as i128 * NS_S).abs() > 41 * NS_S));
        if far {
            let want = table.iter().rev().find(|(ts, _)| tai >= *ts as i128 * NS_S).map(|(_, d)| *d as f64);
            ensure!(got == want, "provider with {} rows answers {:?}, want {:?} at TAI {}", table.len(), got, want, tai);
        }
    }
    Verdict::Pass(if !c.extra.is_empty() && c.k == 28 { "file-with-later-rows" } else if c.crlf { "crlf-file" } else if c.k == 28 { "full-table-file" } else { "prefix-file" }, true)
}

pub fn subs() -> Vec<Box<dyn DynSub>> {
    vec![
        sub(Sub { name: "c06.table", source: Source::Enum(row_enum, |_| true), oracle: row_oracle, known: no_known, hang_is_violation: false }),
        sub(Sub { name: "c06.grid", source: Source::Enum(grid_enum, |_| true), oracle: inst_oracle, known: no_known, hang_is_violation: false }),
        sub(Sub { name: "c06.instants", source: Source::Gen(inst_strategy, 3_000_000, 20_000_000), oracle: inst_oracle, known: no_known, hang_is_violation: false }),
        sub(Sub { name: "c06.accessors", source: Source::Gen(acc_strategy, 1_000_000, 5_000_000), oracle: acc_oracle, known: no_known, hang_is_violation: false }),
        sub(Sub { name: "c06.providers", source: Source::Gen(prov_strategy, 16_000, 128_000), oracle: prov_oracle, known: no_known, hang_is_violation: false }),
        crate::props::chain::c06_chain(),
        crate::props::fuzzsub::fc06(),
    ]
}

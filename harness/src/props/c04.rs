//! C04 — Epoch +/- Duration is exact in the epoch's own time scale; differences invert it
use crate::engine::*;
use crate::gen::*;
use crate::model::*;
use crate::{ensure, lib};
use hifitime::Epoch;
use proptest::prelude::*;
use serde::{Deserialize, Serialize};

pub const RULE: &str = "generated (epoch in one of nine scales, duration/unit/integer-float-seconds, second epoch) with the duration drawn so the result stays representable; oracle = model (scale, count) arithmetic in i128 and the inverse identities compared on to_parts and time_scale; non-trivial = negative count (epoch before its reference), operation crosses a century boundary of the count, crosses a leap entry (UTC), or two different scales are involved; distinct = distinct case tuples (hash set, capped: lower bound); histories (c04.chain): non-trivial = at least three executed shifts and the history crosses a leap entry (UTC) or a century boundary or goes before the reference epoch";

pub const ASSUMPTIONS: &[&str] = &[
    "an epoch is (scale, count) with count read from epoch.duration.to_parts()",
    "cross-scale differences between uniform scales and UTC are also compared with the model's own conversion; for ET/TDB operands only the statement's definition (left.duration - right.to_time_scale(left.scale).duration) is asserted",
    "TAI instants inside an inserted leap second are skipped when a UTC count would be needed",
];

fn dur_for(c: i128) -> BS<i128> {
    // durations relative to the epoch's count c, such that c + d and c - d stay in range
    let room = (DMAX - c.abs() - 1).max(0);
    wunion(vec![
        (3, (any::<bool>(), log_mag(76)).prop_map(move |(s, m)| { let m = m.min(room); if s { -m } else { m } }).boxed()),
        // land on / next to a century boundary of the count
        (3, (-3i128..=3, small_delta(3), any::<bool>()).prop_map(move |(k, d, neg)| {
            let target = (c.div_euclid(NPC) + k) * NPC + d;
            let v = target - c;
            let v = v.clamp(-room, room);
            if neg { -v } else { v }
        }).boxed()),
        // unit multiples
        (2, (0usize..9, -1000i128..=1000).prop_map(move |(u, k)| (k * UNIT_NS[u]).clamp(-room, room)).boxed()),
        (1, small_delta(5)),
        // exact mirror images: d = -2c (the result reads -c) and d = -c (the result is the reference epoch), +- a few ns
        (1, (prop::sample::select(vec![-2i128, -1]), small_delta(2)).prop_map(move |(k, d)| (k * c + d).clamp(-room, room)).boxed()),
        // cross a leap entry (meaningful for UTC)
        (1, (0usize..28, near_offset()).prop_map(move |(i, off)| {
            let ts = leap_entries_ns()[i].0;
            (ts + off - c).clamp(-room, room)
        }).boxed()),
    ])
}

#[derive(Clone, Debug, Serialize, Deserialize)]
pub struct AddCase {
    pub e: Ep,
    pub d: i128,
    pub f: i128,
    /// 0 +d, 1 -d, 2 +=d, 3 -=d
    pub form: u8,
}

/// epochs over the whole representable range as well: near the duration bounds, with results that stay in range
fn epoch_wide() -> BS<Ep> {
    wunion(vec![
        (5, epoch_any(&ALL_SCALES)),
        (1, (0usize..9, prop_oneof![(1i128..200 * NS_S), log_mag(76)], any::<bool>()).prop_map(|(s, d, top)| Ep { s, c: if top { DMAX - d } else { DMIN + d } }).boxed()),
        (1, (0usize..9, count_any()).prop_map(|(s, c)| Ep { s, c }).boxed()),
    ])
}

fn add_strategy() -> BS<AddCase> {
    epoch_wide()
        .prop_flat_map(|e| (Just(e), dur_for(e.c), dur_for(e.c), 0u8..4))
        .prop_map(|(e, d, f, form)| AddCase { e, d, f: e.c + f, form })
        .boxed()
}

fn in_open_range(x: i128) -> bool {
    x > DMIN && x < DMAX
}

fn add_oracle(c: &AddCase) -> Verdict {
    let e = c.e.lib();
    let d = mk(c.d);
    let want = if c.form % 2 == 0 { c.e.c + c.d } else { c.e.c - c.d };
    if !in_open_range(want) || !in_open_range(c.e.c) || !in_open_range(c.f) {
        return Verdict::Skip("a bound would be hit");
    }
    let r: Epoch = match c.form {
        0 => lib!(e + d),
        1 => lib!(e - d),
        2 => lib!({
            let mut x = e;
            x += d;
            x
        }),
        _ => lib!({
            let mut x = e;
            x -= d;
            x
        }),
    };
    ensure!(r.time_scale == SCALES[c.e.s], "time scale changed from {:?} to {:?}", SCALES[c.e.s], r.time_scale);
    ensure!(canonical(r.duration), "result duration not canonical {:?}", r.duration.to_parts());
    ensure!(
        count(r.duration) == want,
        "form {} on {} count {} with d {}: got count {}, want {}",
        c.form, SCALE_NAMES[c.e.s], c.e.c, c.d, count(r.duration), want
    );
    // inverse identities (same scale)
    let applied = if c.form % 2 == 0 { c.d } else { -c.d };
    let diff = lib!(r - e);
    ensure!(count(diff) == applied, "(e op d) - e = {} want {}", count(diff), applied);
    let back = if c.form % 2 == 0 { lib!(r - d) } else { lib!(r + d) };
    ensure!(back.duration.to_parts() == e.duration.to_parts() && back.time_scale == e.time_scale, "(e op d) inverse-op d != e: {:?} vs {:?}", back.duration.to_parts(), e.duration.to_parts());
    // e + (f - e) == f
    let f = Epoch::from_duration(mk(c.f), SCALES[c.e.s]);
    let fe = lib!(f - e);
    ensure!(count(fe) == c.f - c.e.c, "f - e = {} want {}", count(fe), c.f - c.e.c);
    let f2 = lib!(e + fe);
    ensure!(f2.duration.to_parts() == f.duration.to_parts() && f2.time_scale == f.time_scale, "e + (f - e) != f");
    let crosses = c.e.c.div_euclid(NPC) != want.div_euclid(NPC);
    let leap = c.e.s == S_UTC && dat_at_utc(c.e.c) != dat_at_utc(want);
    let class = if leap { "crosses-leap" } else if crosses { "crosses-century" } else if c.e.c < 0 || want < 0 { "pre-reference" } else { "plain" };
    Verdict::Pass(class, class != "plain")
}

#[derive(Clone, Debug, Serialize, Deserialize)]
pub struct UnitCase {
    pub e: Ep,
    pub u: usize,
    pub secs: i64,
    /// 0 e+U 1 e-U 2 e+=U 3 e-=U 4 e + f64 secs
    pub form: u8,
}

fn unit_strategy() -> BS<UnitCase> {
    let secs = wunion(vec![
        (2, (-4_600_000_000i64..=4_600_000_000).boxed()),
        // beyond the range where x * 1e9 is exactly representable (and beyond the i64 nanosecond range):
        // the shift is then trunc(fl(x * 1e9)), C18's semantics
        (2, (any::<bool>(), log_mag(44)).prop_map(|(s, m)| { let m = m as i64; if s { -m } else { m } }).boxed()),
        (1, prop::sample::select(vec![9_223_372_036i64, -9_223_372_036, 9_223_372_037, -9_223_372_037, 10_000_000_000, -10_000_000_000, 100_000_000_000, -100_000_000_000]).boxed()),
        (2, (-100_000i64..=100_000).boxed()),
        (1, prop::sample::select(vec![0i64, 1, -1, 86_400, -86_400, 4_600_000_000, -4_600_000_000, 3_155_760_000, -3_155_760_000]).boxed()),
    ]);
    (epoch_any(&ALL_SCALES), 0usize..9, secs, 0u8..5).prop_map(|(e, u, secs, form)| UnitCase { e, u, secs, form }).boxed()
}

fn unit_oracle(c: &UnitCase) -> Verdict {
    let e = c.e.lib();
    let u = UNITS[c.u];
    let delta = match c.form {
        0 | 2 => UNIT_NS[c.u],
        1 | 3 => -UNIT_NS[c.u],
        _ => f64_trunc_i128(c.secs as f64 * 1e9),
    };
    let want = c.e.c + delta;
    if !in_open_range(want) || !in_open_range(c.e.c) {
        return Verdict::Skip("a bound would be hit");
    }
    let r = match c.form {
        0 => lib!(e + u),
        1 => lib!(e - u),
        2 => lib!({
            let mut x = e;
            x += u;
            x
        }),
        3 => lib!({
            let mut x = e;
            x -= u;
            x
        }),
        _ => lib!(e + (c.secs as f64)),
    };
    ensure!(r.time_scale == SCALES[c.e.s], "time scale changed");
    ensure!(
        count(r.duration) == want,
        "form {} on {} count {} (unit {:?}, secs {}): got {}, want {}",
        c.form, SCALE_NAMES[c.e.s], c.e.c, u, c.secs, count(r.duration), want
    );
    let crosses = c.e.c.div_euclid(NPC) != want.div_euclid(NPC);
    let class = if crosses { "crosses-century" } else if c.e.c < 0 { "pre-reference" } else if c.form == 4 { "f64-seconds" } else { "plain" };
    Verdict::Pass(class, class != "plain")
}

#[derive(Clone, Debug, Serialize, Deserialize)]
pub struct CrossCase {
    pub e: Ep,
    pub f: Ep,
}

fn cross_strategy() -> BS<CrossCase> {
    // f is e's instant (by the model) plus an offset, expressed in another scale — or a free epoch
    let related = (epoch_any(&ALL_SCALES), 0usize..9, prop_oneof![small_delta(3), near_offset(), (any::<bool>(), log_mag(70)).prop_map(|(s, m)| if s { -m } else { m })])
        .prop_map(|(e, s2, off)| {
            let tai = to_tai(e.s, e.c) + off;
            let c2 = from_tai(s2, tai).unwrap_or(tai);
            CrossCase { e, f: Ep { s: s2, c: c2 } }
        })
        .boxed();
    let free = (epoch_any(&ALL_SCALES), epoch_any(&ALL_SCALES)).prop_map(|(e, f)| CrossCase { e, f }).boxed();
    // f reads, in e's scale, exactly minus what e reads (mirror images about e's reference epoch), +- a few ns
    let mirror = (epoch_any(&ALL_SCALES), 0usize..9, small_delta(2))
        .prop_map(|(e, s2, d)| {
            let tai = to_tai(e.s, -e.c + d);
            CrossCase { e, f: Ep { s: s2, c: from_tai(s2, tai).unwrap_or(tai) } }
        })
        .boxed();
    wunion(vec![(6, related), (2, free), (1, mirror)])
}

fn cross_oracle(c: &CrossCase) -> Verdict {
    let (e, f) = (c.e.lib(), c.f.lib());
    if !in_open_range(c.e.c) || !in_open_range(c.f.c) {
        return Verdict::Skip("a bound would be hit");
    }
    let f_in_e = lib!(f.to_time_scale(e.time_scale));
    let defn = count(e.duration) - count(f_in_e.duration);
    if !in_open_range(defn) || !in_open_range(count(f_in_e.duration)) {
        return Verdict::Skip("a bound would be hit");
    }
    let got = lib!(e - f);
    ensure!(
        count(got) == defn,
        "{} {} - {} {}: got {}, want left.duration - right.to_time_scale(left).duration = {}",
        SCALE_NAMES[c.e.s], c.e.c, SCALE_NAMES[c.f.s], c.f.c, count(got), defn
    );
    // model value where the model is exact
    let exact_scales = |s: usize| s != S_ET && s != S_TDB;
    if exact_scales(c.e.s) && exact_scales(c.f.s) {
        let tai = to_tai(c.f.s, c.f.c);
        match from_tai(c.e.s, tai) {
            Some(fc) => {
                ensure!(
                    count(got) == c.e.c - fc,
                    "{} {} - {} {}: got {}, model says {}",
                    SCALE_NAMES[c.e.s], c.e.c, SCALE_NAMES[c.f.s], c.f.c, count(got), c.e.c - fc
                );
            }
            None => return Verdict::Skip("TAI instant inside an inserted leap second has no UTC count"),
        }
    }
    // the next difference, with a right operand that reads exactly minus what the first one read (same scale), is a
    // different instant and has its own value
    if in_open_range(-c.f.c) && c.f.c != 0 {
        let f2 = Epoch::from_duration(mk(-c.f.c), SCALES[c.f.s]);
        let f2_in_e = lib!(f2.to_time_scale(e.time_scale));
        let defn2 = count(e.duration) - count(f2_in_e.duration);
        if in_open_range(defn2) && in_open_range(count(f2_in_e.duration)) {
            let got2 = lib!(e - f2);
            ensure!(
                count(got2) == defn2,
                "{} {} - {} {} (right after the difference with {} {}): got {}, want {}",
                SCALE_NAMES[c.e.s], c.e.c, SCALE_NAMES[c.f.s], -c.f.c, SCALE_NAMES[c.f.s], c.f.c, count(got2), defn2
            );
        }
    }
    let class = if c.e.s != c.f.s { "two-scales" } else if c.e.c < 0 { "pre-reference" } else { "plain" };
    Verdict::Pass(class, class != "plain")
}

pub fn subs() -> Vec<Box<dyn DynSub>> {
    vec![
        sub(Sub { name: "c04.add_sub", source: Source::Gen(add_strategy, 4_000_000, 40_000_000), oracle: add_oracle, known: no_known, hang_is_violation: false }),
        sub(Sub { name: "c04.unit_f64", source: Source::Gen(unit_strategy, 2_400_000, 15_000_000), oracle: unit_oracle, known: no_known, hang_is_violation: false }),
        sub(Sub { name: "c04.cross_scale_diff", source: Source::Gen(cross_strategy, 2_400_000, 15_000_000), oracle: cross_oracle, known: no_known, hang_is_violation: false }),
        crate::props::chain::c04_chain(),
        crate::props::fuzzsub::fc04(),
    ]
}

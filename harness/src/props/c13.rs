//! C13 — Parsers are total: any string yields a value or an error, never a panic
use crate::engine::*;
use crate::gen::*;
use crate::model::*;
use crate::{ensure, lib};
use hifitime::efmt::Format;
use hifitime::{Duration, Epoch, MonthName, TimeScale, Weekday};
use proptest::prelude::*;
use serde::{Deserialize, Serialize};
use std::str::FromStr;

pub const RULE: &str = "generated (input, format) string pairs fed to all ten parser entry points (Epoch::from_str, from_gregorian_str, from_format_str, from_str_with_format, Format::from_str, Format::parse, Duration::from_str, TimeScale/Weekday/MonthName::from_str): (1) grammar-valid inputs of every form of C10, C11 and C19 (ISO/RFC 3339 with offsets and scales, JD/MJD/SEC, unit tables, offsets, all 17 format tokens and '?'); (2) 1-4 mutations of them (delete / insert / replace / duplicate / truncate, splice of two valid inputs, non-ASCII digits, 2-, 3- and 4-byte characters at the byte offsets the parsers slice at, sign characters, digit runs up to 400, huge exponents, inf/nan spellings, white space; numeric forms whose number is any spelling Rust's float parser accepts: NaN / inf / infinity in every casing and sign, exponents at and beyond the float range, 300-digit strings); (3) arbitrary Unicode strings and pairs; (4) well-formed date-times with one field out of range, which must be rejected; oracle = every call returns Ok or Err without panicking (harness built with overflow checks) within the 20 s watchdog; non-trivial = the input survives past the parser's first token (some entry point returns Ok or a late error), or contains a multi-byte character, or belongs to class (4); distinct = distinct (input, format) pairs (hash set, capped: lower bound)";

pub const ASSUMPTIONS: &[&str] = &[
    "a panic inside any entry point, an arithmetic overflow under overflow checks, or a call exceeding the 20 s watchdog is a violation; Ok or any Err is acceptance",
    "class (4): the listed out-of-range fields must give Err from Epoch::from_str, from_gregorian_str and from_format_str with the matching format; hour 24 is generated only with a non-zero minute or second (24:00:00 is left open); 30/31 February in leap years is the open finding KF-feb30-leap-year",
    "totality over all strings is not established; inputs up to 64 KiB are tried",
];

#[derive(Clone, Debug, Serialize, Deserialize)]
pub struct Case {
    pub s: String,
    pub f: String,
    /// class (4): a well-formed date-time with one field out of range, which must be rejected
    pub must_reject: bool,
}

// ---------------------------------------------------------------- valid inputs
const FTOK: [&str; 17] = ["Y", "y", "m", "b", "B", "d", "j", "J", "A", "a", "H", "M", "S", "f", "w", "z", "T"];

fn render_any(tok: &str, g: &Greg, sc: usize) -> String {
    match tok {
        "Y" => fmt_year(g.y),
        "y" => format!("{:02}", g.y % 100),
        "m" => format!("{:02}", g.m),
        "b" => MONTH_SHORT[(g.m - 1) as usize].to_string(),
        "B" => MONTH_LONG[(g.m - 1) as usize].to_string(),
        "d" => format!("{:02}", g.d),
        "j" => format!("{:03}", day_of_year(g)),
        "J" => format!("{}", day_of_year(g) as f64 + (g.hh as f64) / 24.0),
        "A" => WEEKDAY_LONG[weekday_of_day1900(g.day1900) as usize].to_string(),
        "a" => WEEKDAY_SHORT[weekday_of_day1900(g.day1900) as usize].to_string(),
        "H" => format!("{:02}", g.hh),
        "M" => format!("{:02}", g.mm),
        "S" => format!("{:02}", g.ss),
        "f" => format!("{:09}", g.ns),
        "w" => format!("{}", (weekday_of_day1900(g.day1900) + 1) % 7),
        "z" => "+01:30".to_string(),
        _ => SCALE_NAMES[sc].to_string(),
    }
}

fn sep_any() -> BS<String> {
    let mut chars: Vec<char> = (0x20u8..0x7f).map(|b| b as char).filter(|c| *c != '%').collect();
    // multi-byte separators (2, 3 and 4 bytes), repeated so that about one separator in five is non-ASCII
    for _ in 0..4 {
        chars.extend(['é', 'μ', '\u{a0}', '€', '２', '𝄞']);
    }
    let one = prop::sample::select(chars);
    prop_oneof![2 => Just(String::new()), 5 => one.clone().prop_map(|c| c.to_string()), 2 => (one.clone(), one).prop_map(|(a, b)| format!("{a}{b}")), 1 => Just("?".to_string()), 1 => Just("? ".to_string())].boxed()
}

const CONST_FORMATS: [&str; 12] = [
    "%Y-%m-%dT%H:%M:%S.%f %T",
    "%Y-%m-%dT%H:%M:%S.%f? %T?",
    "%Y-%m-%dT%H:%M:%S.%f%z",
    "%Y-%m-%dT%H:%M:%S.%f?%z",
    "%Y-%m-%d",
    "%Y-%j",
    "%a, %d %b %Y %H:%M:%S",
    "%A, %d %B %Y %H:%M:%S",
    "%Y-%m-%dT%H:%M:%S.%f",
    "%Y-%jT%H:%M:%S",
    "%y%m%d %H%M%S",
    "%Y %J %w",
];

/// (format string, matching input)
fn pair_valid() -> BS<(String, String)> {
    let generated = (prop::collection::vec((0usize..17, sep_any()), 1..=17), ns1900_0001_9999(), 0usize..9)
        .prop_map(|(items, g, sc)| {
            let gr = greg_of_ns1900(g);
            let mut f = String::new();
            let mut s = String::new();
            for (i, (t, sep)) in items.iter().enumerate() {
                f.push('%');
                f.push_str(FTOK[*t]);
                s.push_str(&render_any(FTOK[*t], &gr, sc));
                if i + 1 < items.len() {
                    f.push_str(sep);
                    s.push_str(&sep.replace('?', ""));
                }
            }
            (f, s)
        })
        .boxed();
    let consts = (0usize..12, ns1900_0001_9999(), 0usize..9)
        .prop_map(|(k, g, sc)| {
            let gr = greg_of_ns1900(g);
            let f = CONST_FORMATS[k].to_string();
            // render by walking the format string
            let mut s = String::new();
            let mut it = f.chars().peekable();
            while let Some(c) = it.next() {
                if c == '%' {
                    if let Some(t) = it.next() {
                        s.push_str(&render_any(&t.to_string(), &gr, sc));
                    }
                } else if c != '?' {
                    s.push(c);
                }
            }
            (f, s)
        })
        .boxed();
    wunion(vec![(2, generated), (3, consts)])
}

/// formats that use (nearly) all of the 16 token slots and whose input parses up to the last field: well-behaved
/// tokens, single ASCII separators, the last token possibly a name, the input possibly continuing after the last field
fn long_pair_valid() -> BS<(String, String)> {
    const NUM: [&str; 7] = ["Y", "m", "d", "H", "M", "S", "f"];
    const LAST: [&str; 11] = ["Y", "m", "d", "H", "M", "S", "f", "B", "b", "A", "a"];
    const SEP: [&str; 6] = [" ", "-", ":", "T", "/", "."];
    const TAIL: [&str; 10] = ["", "", " 02", " ", "-", "x", " UTC", ".5", "\u{a0}", " 02 03"];
    (prop_oneof![1 => 13usize..=15, 3 => Just(16usize)], prop::collection::vec((0usize..7, 0usize..6), 16), 0usize..11, 0usize..10, ns1900_0001_9999(), 0usize..9)
        .prop_map(|(n, items, last, tail, g, sc)| {
            let gr = greg_of_ns1900(g);
            let mut f = String::new();
            let mut s = String::new();
            for i in 0..n {
                let t = if i + 1 == n { LAST[last] } else { NUM[items[i].0] };
                f.push('%');
                f.push_str(t);
                s.push_str(&render_any(t, &gr, sc));
                if i + 1 < n {
                    f.push_str(SEP[items[i].1]);
                    s.push_str(SEP[items[i].1]);
                }
            }
            s.push_str(TAIL[tail]);
            (f, s)
        })
        .boxed()
}

fn iso_valid() -> BS<String> {
    (ns1900_0001_9999(), any::<bool>(), 0usize..=9, 0u8..4, 0u32..24, 0u32..60, proptest::option::of(0usize..9))
        .prop_map(|(g, sp, fl, tz, oh, om, suffix)| {
            let gr = greg_of_ns1900(g);
            let mut s = format!("{:04}-{:02}-{:02}{}{:02}:{:02}:{:02}", gr.y, gr.m, gr.d, if sp { ' ' } else { 'T' }, gr.hh, gr.mm, gr.ss);
            if fl > 0 {
                s.push('.');
                s.push_str(&format!("{:09}", gr.ns)[..fl]);
            }
            match tz {
                1 => s.push('Z'),
                2 => s.push_str(&format!("+{:02}:{:02}", oh, om)),
                3 => s.push_str(&format!("-{:02}:{:02}", oh, om)),
                _ => {}
            }
            if let Some(sc) = suffix {
                s.push(' ');
                s.push_str(SCALE_NAMES[sc]);
            }
            s
        })
        .boxed()
}

/// well-formed date-times whose year sits at the limits of i32 / of the representable range, on the days and
/// times where the validity rules branch (end of June / December at 23:59, where the leap-second years are consulted)
fn extreme_year_valid() -> BS<String> {
    (
        prop_oneof![
            2 => prop::sample::select(vec![2_147_483_647i64, 2_147_483_646, 2_147_483_648, 5_879_610, 5_879_611, 5_879_612, 3_276_700, 3_276_800, 99_999, 10_000, 32_767, 65_536]),
            // years whose day count from 1900 is about 2^k (k = 16 .. 33): where a day counter of that width ends
            2 => (16u32..=33, -4000i64..=4000).prop_map(|(k, d)| ((1i64 << k) as f64 / 365.2425) as i64 + 1900 + d),
            // years whose second count is about 2^k (k = 40 .. 63)
            1 => (40u32..=63, -300i64..=300).prop_map(|(k, d)| ((1u64 << k) as f64 / 31_556_952.0) as i64 + 1900 + d),
            1 => (any::<bool>(), log_mag(31)).prop_map(|(_, m)| m as i64),
        ],
        prop::sample::select(vec![(12u32, 31u32), (6, 30), (1, 1), (2, 29), (12, 30)]),
        prop::sample::select(vec![(23u32, 59u32, 0u32), (23, 59, 59), (23, 59, 60), (0, 0, 0), (12, 0, 0)]),
        any::<bool>(),
        prop_oneof![Just(""), Just(" UTC"), Just(" TAI"), Just("Z"), Just(" ET")],
    )
        .prop_map(|(y, (m, d), (hh, mm, ss), neg, suffix)| format!("{}{}-{:02}-{:02}T{:02}:{:02}:{:02}{}", if neg { "-" } else { "" }, y, m, d, hh, mm, ss, suffix))
        .boxed()
}

fn numeric_valid() -> BS<String> {
    (prop::sample::select(vec!["JD", "MJD", "SEC"]), -4_000_000.0f64..8_000_000.0, 0usize..9, any::<bool>())
        .prop_map(|(p, x, sc, int)| format!("{} {} {}", p, if int { x.trunc() } else { x }, SCALE_NAMES[sc]))
        .boxed()
}

/// numeric forms whose number is one of the spellings Rust's float parser accepts beyond plain decimals
/// (non-finite values, signed zeros, exponents at and beyond the float range, long digit strings)
fn numeric_special() -> BS<String> {
    let specials = vec![
        "NaN", "nan", "NAN", "-NaN", "+nan", "inf", "-inf", "+inf", "Inf", "INF", "infinity", "-infinity", "Infinity", "+Infinity", "1e308", "1.8e308", "-1.8e308", "1e309", "1e999", "-1e999", "1e-999", "5e-324", "4.9e-324", "-0", "-0.0", "+0", "0e0", ".5", "5.", "1_000", "0x10",
        "1e18", "9.3e18", "-9.3e18", "1.7976931348623157e308", "179769313486231570000000000000000000000000000000000000000000000000000000000000000000000000000000000000000000000000000000000000000000000000000000000000000000000000000000000000000000000000000000000000000000000000000000000000000000000000000000000000000000000000000000000000000000000000000000000000000",
        "0.000000000000000000000000000000000000000000000000000000000000000000000000000000000000000000000000000000000000000000000000000000000000000000000000000000000000000000000000000000000000000000000000000000000000000000000000000000000000000000000000000000000000000000000000000000000000000000000000000000000000000000000000000000000049",
    ];
    (prop::sample::select(vec!["JD", "MJD", "SEC", "jd", "Jd"]), prop::sample::select(specials), proptest::option::of(0usize..9), prop::sample::select(vec![" ", "  ", "\t", ""]))
        .prop_map(|(p, x, sc, sp)| match sc {
            Some(sc) => format!("{}{}{} {}", p, sp, x, SCALE_NAMES[sc]),
            None => format!("{}{}{}", p, sp, x),
        })
        .boxed()
}

fn duration_valid() -> BS<String> {
    let units = ["d", "days", "day", "h", "hours", "hour", "hr", "min", "mins", "minute", "minutes", "s", "second", "seconds", "sec", "ms", "millisecond", "milliseconds", "μs", "us", "microsecond", "microseconds", "ns", "nanosecond", "nanoseconds"];
    let group = (0u32..100_000, proptest::option::of(0u32..1000), prop::sample::select(units.to_vec())).prop_map(|(i, f, u)| match f {
        Some(f) => format!("{}.{} {}", i, f, u),
        None => format!("{} {}", i, u),
    });
    let groups = (any::<bool>(), prop::collection::vec(group, 1..6)).prop_map(|(neg, g)| format!("{}{}", if neg { "-" } else { "" }, g.join(" ")));
    let offset = (any::<bool>(), 0u32..100, 0u32..60, proptest::option::of(0u32..60), any::<bool>()).prop_map(|(neg, h, m, s, colon)| {
        let sep = if colon { ":" } else { "" };
        let mut t = format!("{}{:02}{}{:02}", if neg { '-' } else { '+' }, h, sep, m);
        if let Some(s) = s {
            t.push_str(&format!("{}{:02}", sep, s));
        }
        t
    });
    let display = count_human().prop_map(crate::props::c11::display_model);
    prop_oneof![3 => groups, 2 => offset, 2 => display].boxed()
}

fn word_valid() -> BS<String> {
    let mut words: Vec<String> = vec![];
    for w in SCALE_NAMES.iter().chain(["GPS", "GAL", "BDS", "QZSS"].iter()) {
        words.push(w.to_string());
    }
    for w in WEEKDAY_LONG.iter().chain(WEEKDAY_SHORT.iter()).chain(MONTH_LONG.iter()).chain(MONTH_SHORT.iter()) {
        words.push(w.to_string());
        words.push(w.to_uppercase());
        words.push(w.to_lowercase());
    }
    prop::sample::select(words).boxed()
}

fn valid_case() -> BS<Case> {
    wunion(vec![
        (4, pair_valid().prop_map(|(f, s)| Case { s, f, must_reject: false }).boxed()),
        (1, long_pair_valid().prop_map(|(f, s)| Case { s, f, must_reject: false }).boxed()),
        (3, (iso_valid(), 0usize..12).prop_map(|(s, k)| Case { s, f: CONST_FORMATS[k].to_string(), must_reject: false }).boxed()),
        (1, (extreme_year_valid(), any::<bool>()).prop_map(|(s, t)| Case { f: if t { "%Y-%m-%dT%H:%M:%S".to_string() } else { "%Y-%m-%dT%H:%M:%S %T".to_string() }, s, must_reject: false }).boxed()),
        (2, (numeric_valid(), 0usize..12).prop_map(|(s, k)| Case { s, f: CONST_FORMATS[k].to_string(), must_reject: false }).boxed()),
        (1, (numeric_special(), 0usize..12).prop_map(|(s, k)| Case { s, f: CONST_FORMATS[k].to_string(), must_reject: false }).boxed()),
        (2, (duration_valid(), 0usize..12).prop_map(|(s, k)| Case { s, f: CONST_FORMATS[k].to_string(), must_reject: false }).boxed()),
        (1, (word_valid(), word_valid()).prop_map(|(s, w)| Case { s, f: format!("%B %A %T {}", w), must_reject: false }).boxed()),
    ])
}

// ---------------------------------------------------------------- mutations
const PAYLOAD: [&str; 76] = [
    "−", "–", "—", "＋", "：", "．", "Ｔ", "Ｚ", "\u{3000}", "\u{2009}", "／", "，", "％", "？", "𝟙", "٠", "２", "٣", "μ", "é", "€", "𝄞", "\u{200b}", "\u{7f}", "-", "+", ".", ":", "T", "Z", " ", "  ", "\t", "\n", "\u{0}", "e400", "1e400", "1e-400", "inf", "nan", "NaN", "infinity", "-inf", "%", "?", "%%", "%Q", "%w", "%y", "%J", "%z", "%T", "0", "9", "60", "24", "13", "32", "99", "999999999999", "2147483647", "-2147483648", "JD", "MJD", "SEC", "UTC", "TAI", "GPST", "QZSST", "January", "Mon", "days", "ns", "h", "μs", ",",
];

#[derive(Clone, Debug)]
struct Mutation {
    kind: u8,
    pos: u16,
    payload: usize,
    run: u16,
    on_format: bool,
}

fn mutation() -> BS<Mutation> {
    (0u8..9, prop_oneof![3 => 0u16..12, 2 => 65_520u16..=65_535, 3 => any::<u16>()], 0usize..76, prop_oneof![4 => 1u16..12, 1 => 1u16..400], prop::bool::weighted(0.3))
        .prop_map(|(kind, pos, payload, run, on_format)| Mutation { kind, pos, payload, run, on_format })
        .boxed()
}

/// position given as a small number = that many chars from the start; a number near 65535 = from the end
fn char_pos(s: &str, pos: u16) -> usize {
    let n = s.chars().count();
    let k = if pos >= 65_520 { n.saturating_sub((65_535 - pos) as usize) } else if pos < 12 { (pos as usize).min(n) } else { (pos as usize * (n + 1)) >> 16 };
    s.char_indices().nth(k).map(|(i, _)| i).unwrap_or(s.len())
}

fn apply(s: &str, m: &Mutation, other: &str) -> String {
    let i = char_pos(s, m.pos);
    let next = s[i..].chars().next().map(|c| i + c.len_utf8()).unwrap_or(s.len());
    let p = PAYLOAD[m.payload];
    match m.kind {
        0 => format!("{}{}", &s[..i], &s[next..]),                                  // delete
        1 => format!("{}{}{}", &s[..i], p, &s[i..]),                                // insert
        2 => format!("{}{}{}", &s[..i], p, &s[next..]),                             // replace
        3 => format!("{}{}{}", &s[..next], &s[i..next].repeat(m.run as usize % 8), &s[next..]), // duplicate
        4 => s[..i].to_string(),                                                   // truncate
        5 => format!("{}{}", &s[..i], &other[char_pos(other, m.pos ^ 0x5555)..]),   // splice
        6 => format!("{}{}{}", &s[..i], "9".repeat(m.run as usize), &s[i..]),       // digit run
        8 => {
            // replace the character at this position by a Unicode look-alike of the same syntactic role
            let cur = s[i..].chars().next();
            let rep = match cur {
                Some('-') => ["−", "–", "—", "‐"][m.payload % 4],
                Some('+') => ["＋", "⁺", "➕", "﹢"][m.payload % 4],
                Some(':') => ["：", "∶", "꞉", "︓"][m.payload % 4],
                Some('.') => ["．", "。", "․", "٫"][m.payload % 4],
                Some(' ') => ["\u{a0}", "\u{3000}", "\u{2009}", "\u{202f}"][m.payload % 4],
                Some('T') => ["Ｔ", "Τ", "Т", "ｔ"][m.payload % 4],
                Some('Z') => ["Ｚ", "Ζ", "ｚ", "ᴢ"][m.payload % 4],
                Some('%') => ["％", "٪", "﹪", "⁒"][m.payload % 4],
                Some(c) if c.is_ascii_digit() => {
                    let d = c as u32 - '0' as u32;
                    return format!("{}{}{}", &s[..i], char::from_u32([0xff10, 0x0660, 0x06f0, 0x1d7d8][m.payload % 4] + d).unwrap_or('0'), &s[next..]);
                }
                _ => p,
            };
            format!("{}{}{}", &s[..i], rep, &s[next..])
        }
        _ => format!("{}{}{}", &s[..i], p.repeat((m.run as usize % 5) + 1), &s[i..]),
    }
}

fn mutated_case() -> BS<Case> {
    (valid_case(), valid_case(), prop::collection::vec(mutation(), 1..=4))
        .prop_map(|(a, b, muts)| {
            let mut s = a.s;
            let mut f = a.f;
            for m in &muts {
                if m.on_format {
                    f = apply(&f, m, &b.f);
                } else {
                    s = apply(&s, m, &b.s);
                }
                if s.len() > 65_536 {
                    s.truncate(char_pos(&s, 4000));
                }
            }
            Case { s, f, must_reject: false }
        })
        .boxed()
}

fn arbitrary_case() -> BS<Case> {
    let any_str = prop_oneof![
        3 => ".{0,40}",
        2 => "[0-9TZ:+. -]{0,40}",
        1 => "\\PC{0,20}",
        1 => "[%YmdHMSfjAaBbTzwyJ?, :-]{0,40}",
        1 => (1usize..65_000).prop_map(|n| "7".repeat(n)),
    ];
    (any_str.clone(), any_str).prop_map(|(s, f)| Case { s, f, must_reject: false }).boxed()
}

// ---------------------------------------------------------------- class (4)
fn reject_case() -> BS<Case> {
    (day_0001_9999(), 0u32..24, 0u32..60, 0u32..60, 0u8..8, any::<u32>(), prop_oneof![Just(""), Just(" UTC"), Just(" TAI"), Just("Z"), Just(" GPST")], any::<bool>())
        .prop_map(|(day, hh, mm, ss, kind, r, suffix, sp)| {
            let g = greg_of_ns1900(day as i128 * NS_D);
            let (mut y, mut m, mut d, mut hh, mut mm, mut ss) = (g.y, g.m, g.d, hh, mm, ss);
            match kind {
                0 => m = 13 + r % 87,
                1 => d = month_len(y, m) + 1 + r % (99 - month_len(y, m)),
                2 => {
                    // 29 February in a common year
                    if is_leap(y) {
                        y += 1;
                    }
                    m = 2;
                    d = 29;
                }
                3 => {
                    // 30 / 31 February (leap or not)
                    m = 2;
                    d = 30 + r % 2;
                }
                4 => {
                    if r % 4 == 0 {
                        // hour 24 with a non-zero minute or second denotes no time of day under any reading
                        hh = 24;
                        if mm == 0 && ss == 0 {
                            mm = 1 + r % 59;
                        }
                    } else {
                        hh = 25 + r % 75;
                    }
                }
                5 => mm = 60 + r % 40,
                6 => ss = 61 + r % 39,
                _ => {
                    // second 60 on a day that precedes no leap second
                    ss = 60;
                    let next_day_s = (days_1900(y, m, d) + 1) * 86_400;
                    if leap_table().iter().any(|(ts, _)| *ts == next_day_s) {
                        d = if d > 1 { d - 1 } else { d + 1 };
                    }
                }
            }
            if y > 9999 {
                y = 9998;
            }
            // an out-of-range UTC offset (hour >= 24 or minute >= 60), attached to the time or after a blank; or an
            // ordinal date with day 000 / a day beyond the year's length
            if kind >= 6 && r % 5 == 0 {
                let g0 = greg_of_ns1900(day as i128 * NS_D);
                let (oh, om) = if r % 2 == 0 { (24 + r / 7 % 76, r / 11 % 60) } else { (r / 7 % 24, 60 + r / 11 % 40) };
                let s = format!("{:04}-{:02}-{:02}T{:02}:{:02}:{:02}{}{}{:02}{}{:02}", g0.y, g0.m, g0.d, r / 13 % 24, r / 17 % 60, r / 19 % 60, if sp { " " } else { "" }, if r / 3 % 2 == 0 { '+' } else { '-' }, oh, if r / 23 % 4 == 0 { "" } else { ":" }, om);
                // (no format: Format::parse does not read %z offsets at all, which no statement covers)
                return Case { s, f: String::new(), must_reject: true };
            }
            if kind >= 6 && r % 5 == 1 {
                let g0 = greg_of_ns1900(day as i128 * NS_D);
                let len = if is_leap(g0.y) { 366 } else { 365 };
                let doy = if r % 3 == 0 { 0 } else { len + 1 + r / 7 % (999 - len) };
                return Case { s: format!("{:04}-{:03}", g0.y, doy), f: "%Y-%j".to_string(), must_reject: true };
            }
            let s = format!("{:04}-{:02}-{:02}{}{:02}:{:02}:{:02}{}", y, m, d, if sp { ' ' } else { 'T' }, hh, mm, ss, suffix);
            // 'Z' is only understood by the ISO parser: no format for it (the empty format rejects everything)
            let f = if suffix == "Z" { String::new() } else { format!("%Y-%m-%d{}%H:%M:%S{}", if sp { ' ' } else { 'T' }, if suffix.starts_with(' ') { " %T" } else { "" }) };
            Case { s, f, must_reject: true }
        })
        .boxed()
}

fn case_strategy() -> BS<Case> {
    wunion(vec![(2, valid_case()), (6, mutated_case()), (2, arbitrary_case()), (1, reject_case())])
}

fn reject_only_strategy() -> BS<Case> {
    reject_case()
}

fn known(c: &Case) -> Option<&'static str> {
    if !c.must_reject {
        return None;
    }
    // "YYYY-02-30" / "-02-31" in a leap year
    let b = c.s.as_bytes();
    if !(b.len() >= 10 && c.s.is_ascii() && &c.s[4..8] == "-02-" && (&c.s[8..10] == "30" || &c.s[8..10] == "31")) {
        return None;
    }
    let leap = matches!(c.s[..4].parse::<i64>(), Ok(y) if is_leap(y));
    if !leap {
        return None;
    }
    // a panic is never the known finding; and an accepting parser must return exactly what the finding predicts:
    // the same date-time on 1 / 2 March
    if run_all(&c.s, &c.f).is_err() {
        return None;
    }
    let alt = format!("{}-03-{}{}", &c.s[..4], if &c.s[8..10] == "30" { "01" } else { "02" }, &c.s[10..]);
    let same = |a: Option<Epoch>, b: Option<Epoch>| match (a, b) {
        (None, _) => true,
        (Some(x), Some(y)) => x.duration.to_parts() == y.duration.to_parts() && x.time_scale == y.time_scale,
        _ => false,
    };
    let (s, f) = (c.s.as_str(), c.f.as_str());
    if same(Epoch::from_str(s).ok(), Epoch::from_str(&alt).ok())
        && same(Epoch::from_gregorian_str(s).ok(), Epoch::from_gregorian_str(&alt).ok())
        && same(Epoch::from_format_str(s, f).ok(), Epoch::from_format_str(&alt, f).ok())
    {
        Some("KF-feb30-leap-year")
    } else {
        None
    }
}

pub fn run_all(s: &str, f: &str) -> Result<(u32, [bool; 6]), String> {
    // returns (number of entry points that returned Ok, [ok flags of the Epoch parsers])
    let mut oks = 0u32;
    let e0 = guard(|| Epoch::from_str(s)).map_err(|m| format!("Epoch::from_str({:?}): {}", s, m))?;
    let e1 = guard(|| Epoch::from_gregorian_str(s)).map_err(|m| format!("Epoch::from_gregorian_str({:?}): {}", s, m))?;
    let e2 = guard(|| Epoch::from_format_str(s, f)).map_err(|m| format!("Epoch::from_format_str({:?}, {:?}): {}", s, f, m))?;
    let fm = guard(|| Format::from_str(f)).map_err(|m| format!("Format::from_str({:?}): {}", f, m))?;
    let fm2 = guard(|| Format::from_str(s)).map_err(|m| format!("Format::from_str({:?}): {}", s, m))?;
    let mut e3_ok = false;
    let mut e4_ok = false;
    if let Ok(fmt) = &fm {
        let fmt = *fmt;
        e3_ok = guard(|| fmt.parse(s)).map_err(|m| format!("Format::parse({:?}) with format {:?}: {}", s, f, m))?.is_ok();
        e4_ok = guard(|| Epoch::from_str_with_format(s, fmt)).map_err(|m| format!("Epoch::from_str_with_format({:?}, {:?}): {}", s, f, m))?.is_ok();
        // and the format's own rendering of an arbitrary epoch must not panic either... (C19's subject; not here)
    }
    let d = guard(|| Duration::from_str(s)).map_err(|m| format!("Duration::from_str({:?}): {}", s, m))?;
    let d2 = guard(|| Duration::from_str(f)).map_err(|m| format!("Duration::from_str({:?}): {}", f, m))?;
    let t = guard(|| TimeScale::from_str(s)).map_err(|m| format!("TimeScale::from_str({:?}): {}", s, m))?;
    let w = guard(|| Weekday::from_str(s)).map_err(|m| format!("Weekday::from_str({:?}): {}", s, m))?;
    let mo = guard(|| MonthName::from_str(s)).map_err(|m| format!("MonthName::from_str({:?}): {}", s, m))?;
    for b in [e0.is_ok(), e1.is_ok(), e2.is_ok(), fm.is_ok(), fm2.is_ok(), e3_ok, e4_ok, d.is_ok(), d2.is_ok(), t.is_ok(), w.is_ok(), mo.is_ok()] {
        if b {
            oks += 1;
        }
    }
    Ok((oks, [e0.is_ok(), e1.is_ok(), e2.is_ok(), e3_ok, e4_ok, fm.is_ok()]))
}

pub fn oracle(c: &Case) -> Verdict {
    let (oks, ep) = match run_all(&c.s, &c.f) {
        Ok(v) => v,
        Err(m) => return Verdict::Fail(m),
    };
    if c.must_reject {
        ensure!(!ep[0], "Epoch::from_str accepts the out-of-range date-time {:?}: {:?}", c.s, lib!(Epoch::from_str(&c.s)).map(|e| format!("{e}")));
        ensure!(!ep[1], "Epoch::from_gregorian_str accepts the out-of-range date-time {:?}", c.s);
        ensure!(!ep[2] && !ep[3] && !ep[4], "Epoch::from_format_str / Format::parse accept the out-of-range date-time {:?} with format {:?}", c.s, c.f);
        ensure!(ep[5], "the format {:?} of a class (4) case does not build", c.f);
        return Verdict::Pass("out-of-range-field-rejected", true);
    }
    let multibyte = !c.s.is_ascii() || !c.f.is_ascii();
    let class = if oks >= 2 { "accepted-by->=2-entry-points" } else if oks == 1 { "accepted-by-1" } else if multibyte { "multibyte-rejected" } else { "rejected-everywhere" };
    Verdict::Pass(class, oks >= 1 || multibyte)
}

// ---------------------------------------------------------------- second = 60 in text, every semester end 1960-2030
#[derive(Clone, Debug, Serialize, Deserialize)]
pub struct LeapText {
    pub y: i64,
    pub june: bool,
    /// 0 plain, 1 ' UTC', 2 'Z', 3 ' TAI', 4 space separator, 5 with a fraction
    pub form: u8,
    /// month (0: derive from `june`), day offset from the month's last day, hour, minute
    #[serde(default)]
    pub m: u8,
    #[serde(default)]
    pub back: u8,
    #[serde(default = "h23")]
    pub hh: u8,
    #[serde(default = "m59")]
    pub mm: u8,
}
fn h23() -> u8 {
    23
}
fn m59() -> u8 {
    59
}

pub fn leap_text_enum(_t: Tier, shard: usize, sink: &mut dyn FnMut(LeapText) -> bool) {
    // every month end 1958-2040 and the day before it, at 23:59 and at other hours / minutes, six text forms
    let mut i = 0;
    for y in 1958..=2040 {
        for m in 1..=12u8 {
            for back in [0u8, 1] {
                for (hh, mm) in [(23u8, 59u8), (23, 58), (22, 59), (0, 59), (12, 0)] {
                    for form in 0..6u8 {
                        i += 1;
                        if i % SHARDS == shard && !sink(LeapText { y, june: m == 6, form, m, back, hh, mm }) {
                            return;
                        }
                    }
                }
            }
        }
    }
}

fn leap_text_oracle(c: &LeapText) -> Verdict {
    let m = if c.m == 0 { if c.june { 6 } else { 12 } } else { c.m as u32 };
    let d = month_len(c.y, m) - c.back as u32;
    if (c.y, m, d, c.hh, c.mm) == (1971, 12, 31, 23, 59) {
        return Verdict::Skip("1971-12-31T23:59:60 is left open by the statement");
    }
    let next_day_s = (days_1900(c.y, m, d) + 1) * 86_400;
    // second 60 exists only at 23:59 of a day at whose end IERS inserted a leap second
    let is_leap_day = c.hh == 23 && c.mm == 59 && leap_table().iter().skip(1).any(|(ts, _)| *ts == next_day_s);
    let body = format!("{:04}-{:02}-{:02}{}{:02}:{:02}:60", c.y, m, d, if c.form == 4 { ' ' } else { 'T' }, c.hh, c.mm);
    let txt = match c.form {
        1 => format!("{body} UTC"),
        2 => format!("{body}Z"),
        3 => format!("{body} TAI"),
        5 => format!("{body}.5 UTC"),
        _ => body,
    };
    let fmt = match c.form {
        1 | 3 => "%Y-%m-%dT%H:%M:%S %T",
        4 => "%Y-%m-%d %H:%M:%S",
        0 => "%Y-%m-%dT%H:%M:%S",
        _ => "",
    };
    let a = lib!(Epoch::from_str(&txt));
    let b = lib!(Epoch::from_gregorian_str(&txt));
    ensure!(a.is_ok() == is_leap_day && b.is_ok() == is_leap_day, "{:?}: from_str is_ok = {}, from_gregorian_str is_ok = {}; second 60 exists there (23:59 of a day that ends with an IERS leap second): {}", txt, a.is_ok(), b.is_ok(), is_leap_day);
    if !fmt.is_empty() {
        let f = lib!(Epoch::from_format_str(&txt, fmt));
        ensure!(f.is_ok() == is_leap_day, "{:?} with format {:?}: is_ok = {}; leap-second day: {}", txt, fmt, f.is_ok(), is_leap_day);
    }
    Verdict::Pass(if is_leap_day { "leap-second-day-accepted" } else { "no-leap-second-rejected" }, true)
}

pub fn subs() -> Vec<Box<dyn DynSub>> {
    vec![
        sub(Sub { name: "c13.strings", source: Source::Gen(case_strategy, 600_000, 10_000_000), oracle, known, hang_is_violation: true }),
        sub(Sub { name: "c13.out_of_range", source: Source::Gen(reject_only_strategy, 100_000, 3_000_000), oracle, known, hang_is_violation: true }),
        sub(Sub { name: "c13.leap_second_text", source: Source::Enum(leap_text_enum, |_| true), oracle: leap_text_oracle, known: no_known, hang_is_violation: true }),
        crate::props::fuzzsub::c13_fuzz(),
        crate::props::fuzzsub::fc13(),
    ]
}

//! C03 — Duration ordering and equality agree with the signed value
use crate::engine::*;
use crate::gen::*;
use crate::model::*;
use crate::{ensure, lib};
use hifitime::Duration;
#[allow(unused_imports)]
use hifitime::Unit;
use proptest::prelude::*;
use serde::{Deserialize, Serialize};
use std::cmp::Ordering;

pub const RULE: &str = "generated pairs, triples and vectors of durations (plus structured pairs: century fields differing by one, straddling zero, exact negations, a+b = k*NPC) each operand built through one of eight routes (five constructors, a negation, a sum, a difference), compared with the order / equality of their i128 counts; non-trivial = counts differ in sign, century fields differ by exactly 1, or a structured pair; distinct = distinct operand tuples (hash set, capped: lower bound)";

pub const ASSUMPTIONS: &[&str] = &[
    "count := centuries*NPC + nanoseconds from to_parts()",
    "a == b between different counts is *allowed* (not required) only for exact negations within one century of zero",
];

#[derive(Clone, Debug, Serialize, Deserialize)]
pub struct Pair {
    pub a: Dur,
    pub b: Dur,
    pub structured: bool,
    /// how each operand is built from its count: 0 from_parts, 1 from_total_nanoseconds,
    /// 2 from_truncated_nanoseconds (when it fits), 3 an integer multiple of a unit (when it is one), 4 -(-x),
    /// 5 -(y) with y = -x, 6 (x - p) + p, 7 (x + p) - p, 8 From<std::time::Duration>
    #[serde(default)]
    pub route: (u8, u8),
}

/// builds a duration with the given count through one of several public constructors
fn build(d: &Dur, route: u8) -> Duration {
    let plain = d.lib();
    let c = d.intended();
    if d.n as i128 >= NPC {
        return plain; // un-normalised input: only from_parts takes it
    }
    match route {
        1 => Duration::from_total_nanoseconds(c),
        2 if c >= i64::MIN as i128 && c <= i64::MAX as i128 => Duration::from_truncated_nanoseconds(c as i64),
        3 => {
            for u in (0..9).rev() {
                if c % UNIT_NS[u] == 0 && (c / UNIT_NS[u]).abs() <= i64::MAX as i128 {
                    return (c / UNIT_NS[u]) as i64 * UNITS[u];
                }
            }
            plain
        }
        4 if c > DMIN && c < DMAX => -(-plain),
        // results of arithmetic: a single negation, a sum and a difference that have this count
        5 if c > DMIN && c < DMAX => -Duration::from_total_nanoseconds(-c),
        6 | 7 => {
            let p = c.rem_euclid(1000) + 1;
            if route == 6 && c - p > DMIN {
                Duration::from_total_nanoseconds(c - p) + Duration::from_total_nanoseconds(p)
            } else if route == 7 && c + p < DMAX {
                Duration::from_total_nanoseconds(c + p) - Duration::from_total_nanoseconds(p)
            } else {
                plain
            }
        }
        // results of the assignment forms, of an absolute value, of an exact product and quotient
        9 | 10 => {
            let p = c.rem_euclid(1000) + 1;
            if route == 9 && c - p > DMIN {
                let mut x = Duration::from_total_nanoseconds(c - p);
                x += Duration::from_total_nanoseconds(p);
                x
            } else if route == 10 && c + p < DMAX {
                let mut x = Duration::from_total_nanoseconds(c + p);
                x -= Duration::from_total_nanoseconds(p);
                x
            } else {
                plain
            }
        }
        11 if c > DMIN && c < DMAX => {
            if c >= 0 {
                Duration::from_total_nanoseconds(-c).abs()
            } else {
                plain
            }
        }
        12 if c % 3 == 0 && c.abs() < NPC => Duration::from_total_nanoseconds(c / 3) * 3,
        // (non-negative only: / reads total_nanoseconds(), wrong below -2 centuries - open finding KF-total-ns-sign)
        13 if c >= 0 && c < NPC => Duration::from_total_nanoseconds(c * 3) / 3,
        14 if c - NS_S > DMIN && c < DMAX => {
            // a sum with a Unit landing on the value
            let mut x = Duration::from_total_nanoseconds(c - NS_S);
            x += hifitime::Unit::Second;
            x
        }
        // conversion from the standard library's duration (non-negative counts that fit)
        8 if c >= 0 && c / NS_S <= u64::MAX as i128 => Duration::from(std::time::Duration::new((c / NS_S) as u64, (c % NS_S) as u32)),
        _ => plain,
    }
}

fn pair_strategy() -> BS<Pair> {
    let free = (dur_any(), dur_any()).prop_map(|(a, b)| Pair { a, b, structured: false, route: (0, 0) }).boxed();
    let structured = (dur_canon(), 0u8..8, edge_centuries(), small_delta(3))
        .prop_map(|(a, kind, k, d)| {
            let ca = a.intended();
            let cb = match kind {
                0 => -ca,                 // exact negation
                1 => -ca + d,             // near negation
                2 => NPC - ca + d,        // a + b = NPC (the shape the eq special case can confuse)
                3 => k * NPC - ca + d,    // a + b = k*NPC
                4 => ca + NPC + d,        // century fields differ by one, same ns
                5 => ca - NPC + d,
                6 => ca + d,              // adjacent
                _ => (ca.rem_euclid(NPC)) - NPC + d, // same ns field in century -1
            };
            Pair { a, b: Dur::of_count(cb), structured: true, route: (0, 0) }
        })
        .boxed();
    // small magnitudes straddling zero, both in century 0 / -1
    let zero_x = (-(2 * NPC)..(2 * NPC), small_delta(3), any::<bool>())
        .prop_map(|(x, d, neg)| Pair { a: Dur::of_count(x), b: Dur::of_count(if neg { -x + d } else { NPC - x + d }), structured: true, route: (0, 0) })
        .boxed();
    // equal counts reached through different constructor inputs (exact unit multiples favoured)
    let same_count = (prop_oneof![count_any(), (0usize..9, -40_000i128..=40_000).prop_map(|(u, k)| clamp(k * UNIT_NS[u]))], small_delta(1))
        .prop_map(|(c, d)| Pair { a: Dur::of_count(c), b: Dur::of_count(c + d), structured: true, route: (0, 0) })
        .boxed();
    (wunion(vec![(4, free), (5, structured), (2, zero_x), (3, same_count)]), any::<bool>(), 0u8..15, 0u8..15)
        .prop_map(|(p, sw, r1, r2)| if sw { Pair { a: p.b, b: p.a, structured: p.structured, route: (r1, r2) } } else { Pair { route: (r1, r2), ..p } })
        .boxed()
}

fn pair_oracle(c: &Pair) -> Verdict {
    let a = lib!(build(&c.a, c.route.0));
    let b = lib!(build(&c.b, c.route.1));
    // (a non-canonical operand is not skipped here: two values with the same count must still be equal
    // and ordered by their count, whatever constructor produced them)
    let (ca, cb) = (count(a), count(b));
    // whatever the constructor route, the value built must carry the intended count: otherwise two different
    // intended values could collapse and compare equal (reported here as well as by C02)
    ensure!(ca == c.a.intended() && cb == c.b.intended(), "constructor route {:?} built counts {} / {} for intended {} / {}", c.route, ca, cb, c.a.intended(), c.b.intended());
    let ord = ca.cmp(&cb);
    let desc = format!("a={:?} (count {}) b={:?} (count {})", a.to_parts(), ca, b.to_parts(), cb);
    ensure!(lib!(a.cmp(&b)) == ord, "cmp: {} gives {:?}, want {:?}", desc, a.cmp(&b), ord);
    ensure!(lib!(a.partial_cmp(&b)) == Some(ord), "partial_cmp: {} want {:?}", desc, ord);
    ensure!(lib!(a < b) == (ord == Ordering::Less), "<: {}", desc);
    ensure!(lib!(a <= b) == (ord != Ordering::Greater), "<=: {}", desc);
    ensure!(lib!(a > b) == (ord == Ordering::Greater), ">: {}", desc);
    ensure!(lib!(a >= b) == (ord != Ordering::Less), ">=: {}", desc);
    let mn = lib!(a.min(b));
    let mx = lib!(a.max(b));
    ensure!(count(mn) == ca.min(cb), "min: {} gives {:?}", desc, mn.to_parts());
    ensure!(count(mx) == ca.max(cb), "max: {} gives {:?}", desc, mx.to_parts());
    let eq = lib!(a == b);
    let ne = lib!(a != b);
    ensure!(eq != ne, "== and != agree: {}", desc);
    if ca == cb {
        ensure!(eq, "same count but not equal: {}", desc);
    } else if eq {
        ensure!(
            ca == -cb && ca.abs() <= NPC,
            "== holds between different counts that are not exact negations within one century: {}",
            desc
        );
    }
    // the methods Ord provides on top of cmp: clamp between the two operands' extremes, core::cmp::{min, max}
    {
        let (lo, hi) = if ca <= cb { (a, b) } else { (b, a) };
        for x in [a, b, Duration::ZERO, lo + (hi - lo) / 2] {
            let cx = count(x);
            let got = lib!(Ord::clamp(x, lo, hi));
            ensure!(count(got) == cx.clamp(count(lo), count(hi)), "clamp({:?}, {:?}, {:?}) = {:?} (count {}), want count {}", x.to_parts(), lo.to_parts(), hi.to_parts(), got.to_parts(), count(got), cx.clamp(count(lo), count(hi)));
        }
        ensure!(count(lib!(std::cmp::max(a, b))) == ca.max(cb) && count(lib!(std::cmp::min(a, b))) == ca.min(cb), "core::cmp::max / min wrong: {}", desc);
    }
    // negative < zero < positive
    let z = Duration::ZERO;
    ensure!(lib!(a < z) == (ca < 0) && lib!(a > z) == (ca > 0), "sign vs ZERO: {}", desc);
    // the sign predicate is the same classification (negative < zero): never true for zero or a positive duration
    ensure!(lib!(a.is_negative()) == (ca < 0), "is_negative() = {} for {}", a.is_negative(), desc);
    // a + b > a  <=>  b > 0 (away from saturation)
    let sum = ca + cb;
    if sum > DMIN && sum < DMAX {
        let s = lib!(a + b);
        if count(s) == sum {
            ensure!(lib!(s > a) == (cb > 0), "a+b > a <=> b>0: {}", desc);
            ensure!(lib!(s < a) == (cb < 0), "a+b < a <=> b<0: {}", desc);
            // the sum is a duration like any other: equal to, and ordered like, the value of the same count
            let t = Duration::from_total_nanoseconds(sum);
            ensure!(lib!(s == t) && lib!(s.cmp(&t)) == Ordering::Equal, "a+b = {:?} does not compare equal to the duration of the same count {:?}: {}", s.to_parts(), t.to_parts(), desc);
        }
    }
    let (ka, kb) = (ca.div_euclid(NPC), cb.div_euclid(NPC));
    let class = if c.structured {
        "structured"
    } else if (ca < 0) != (cb < 0) {
        "sign-differs"
    } else if (ka - kb).abs() == 1 {
        "century-adjacent"
    } else {
        "plain"
    };
    Verdict::Pass(class, class != "plain")
}

#[derive(Clone, Debug, Serialize, Deserialize)]
pub struct Triple {
    pub a: Dur,
    pub b: Dur,
    pub c: Dur,
}

fn triple_strategy() -> BS<Triple> {
    let near = (dur_canon(), small_delta(3), small_delta(3), prop::sample::select(vec![0i128, NPC, -NPC]), prop::sample::select(vec![0i128, NPC, -NPC]))
        .prop_map(|(a, d1, d2, k1, k2)| {
            let ca = a.intended();
            Triple { a, b: Dur::of_count(ca + k1 + d1), c: Dur::of_count(ca + k2 + d2) }
        })
        .boxed();
    let free = (dur_any(), dur_any(), dur_any()).prop_map(|(a, b, c)| Triple { a, b, c }).boxed();
    wunion(vec![(1, free), (1, near)])
}

fn triple_oracle(t: &Triple) -> Verdict {
    let v = [lib!(t.a.lib()), lib!(t.b.lib()), lib!(t.c.lib())];
    if v.iter().any(|d| !canonical(*d)) {
        return Verdict::Skip("non-canonical operand (C02's subject)");
    }
    // trichotomy / antisymmetry on all pairs, transitivity on all permutations
    for i in 0..3 {
        for j in 0..3 {
            let (x, y) = (v[i], v[j]);
            let n = [lib!(x < y), lib!(x.cmp(&y) == Ordering::Equal), lib!(x > y)].iter().filter(|b| **b).count();
            ensure!(n == 1, "trichotomy fails for {:?} {:?}", x.to_parts(), y.to_parts());
            ensure!(lib!(x < y) == lib!(y > x), "antisymmetry fails for {:?} {:?}", x.to_parts(), y.to_parts());
            for k in 0..3 {
                let z = v[k];
                if lib!(x <= y) && lib!(y <= z) {
                    ensure!(lib!(x <= z), "transitivity fails for {:?} {:?} {:?}", x.to_parts(), y.to_parts(), z.to_parts());
                }
            }
        }
    }
    let cs = [count(v[0]), count(v[1]), count(v[2])];
    let nt = (cs[0] < 0) != (cs[1] < 0) || (cs[1] < 0) != (cs[2] < 0);
    Verdict::Pass(if nt { "mixed-sign" } else { "plain" }, nt)
}

#[derive(Clone, Debug, Serialize, Deserialize)]
pub struct SortCase {
    pub v: Vec<Dur>,
}

fn sort_strategy() -> BS<SortCase> {
    prop::collection::vec(dur_any(), 2..64).prop_map(|v| SortCase { v }).boxed()
}

fn sort_oracle(s: &SortCase) -> Verdict {
    let mut lib_v: Vec<Duration> = Vec::new();
    for d in &s.v {
        let x = lib!(d.lib());
        if !canonical(x) {
            return Verdict::Skip("non-canonical operand (C02's subject)");
        }
        lib_v.push(x);
    }
    let mut counts: Vec<i128> = lib_v.iter().map(|d| count(*d)).collect();
    counts.sort();
    let sorted = lib!({
        let mut w = lib_v.clone();
        w.sort();
        w
    });
    let got: Vec<i128> = sorted.iter().map(|d| count(*d)).collect();
    ensure!(got == counts, "sort() order differs from count order: got {:?} want {:?}", got, counts);
    let mx = lib!(lib_v.iter().copied().max().unwrap());
    let mn = lib!(lib_v.iter().copied().min().unwrap());
    ensure!(count(mx) == *counts.last().unwrap() && count(mn) == counts[0], "iterator max/min wrong");
    let nt = counts[0] < 0 && *counts.last().unwrap() > 0;
    Verdict::Pass(if nt { "mixed-sign" } else { "plain" }, nt)
}

#[derive(Clone, Debug, Serialize, Deserialize)]
pub struct UnitCmp {
    pub a: Dur,
    pub u: usize,
}

fn unitcmp_strategy() -> BS<UnitCmp> {
    let a = wunion(vec![
        (2, dur_any()),
        (3, (0usize..9, any::<bool>(), small_delta(3)).prop_map(|(u, s, d)| Dur::of_count(if s { -UNIT_NS[u] } else { UNIT_NS[u] } + d)).boxed()),
    ]);
    (a, 0usize..9).prop_map(|(a, u)| UnitCmp { a, u }).boxed()
}

fn unitcmp_oracle(c: &UnitCmp) -> Verdict {
    let a = lib!(c.a.lib());
    if !canonical(a) {
        return Verdict::Skip("non-canonical operand (C02's subject)");
    }
    let u = UNITS[c.u];
    let ca = count(a);
    let cu = UNIT_NS[c.u];
    let ord = ca.cmp(&cu);
    let desc = format!("a={:?} (count {}) vs {:?} ({} ns)", a.to_parts(), ca, u, cu);
    ensure!(lib!(a.partial_cmp(&u)) == Some(ord), "partial_cmp with Unit: {}", desc);
    ensure!(lib!(a < u) == (ord == Ordering::Less), "< Unit: {}", desc);
    ensure!(lib!(a > u) == (ord == Ordering::Greater), "> Unit: {}", desc);
    ensure!(lib!(a <= u) == (ord != Ordering::Greater), "<= Unit: {}", desc);
    ensure!(lib!(a >= u) == (ord != Ordering::Less), ">= Unit: {}", desc);
    let eq = lib!(a == u);
    if ca == cu {
        ensure!(eq, "== Unit false for equal counts: {}", desc);
    } else if eq {
        ensure!(ca == -cu && cu <= NPC, "== Unit true for different magnitudes: {}", desc);
    }
    let nt = (ca.abs() - cu).abs() <= 3 || ca < 0;
    Verdict::Pass(if nt { "near-unit/negative" } else { "plain" }, nt)
}

// ---------------------------------------------------------------- every pair of special values (enumerated)
fn special_counts() -> Vec<i128> {
    let mut v: Vec<i128> = vec![0, 1, -1, 2, -2, DMIN, DMIN + 1, DMAX, DMAX - 1, i64::MAX as i128, i64::MIN as i128, NPC / 2, -NPC / 2, NPC / 2 + 1, -(NPC / 2) - 1];
    for k in [1i128, 2, 3, 100] {
        for d in [-1i128, 0, 1] {
            v.push(k * NPC + d);
            v.push(-k * NPC + d);
        }
    }
    for u in UNIT_NS {
        v.push(u);
        v.push(-u);
        v.push(2 * u);
        v.push(-2 * u);
    }
    v.sort();
    v.dedup();
    v
}

#[derive(Clone, Debug, Serialize, Deserialize)]
pub struct SpecialPair {
    pub i: usize,
    pub j: usize,
}

fn special_enum(_t: Tier, shard: usize, sink: &mut dyn FnMut(SpecialPair) -> bool) {
    let n = special_counts().len();
    for i in 0..n {
        for j in 0..n {
            if (i * n + j) % SHARDS == shard && !sink(SpecialPair { i, j }) {
                return;
            }
        }
    }
}

fn special_oracle(c: &SpecialPair) -> Verdict {
    let v = special_counts();
    let p = Pair { a: Dur::of_count(v[c.i]), b: Dur::of_count(v[c.j]), structured: true, route: (0, 1) };
    match pair_oracle(&p) {
        Verdict::Fail(m) => return Verdict::Fail(m),
        _ => {}
    }
    // and against every unit when the right operand is one
    for (k, u) in UNITS.iter().enumerate() {
        if v[c.j] == UNIT_NS[k] {
            if let Verdict::Fail(m) = unitcmp_oracle(&UnitCmp { a: Dur::of_count(v[c.i]), u: k }) {
                return Verdict::Fail(m);
            }
            let _ = u;
        }
    }
    Verdict::Pass("special-pair", true)
}

pub fn subs() -> Vec<Box<dyn DynSub>> {
    vec![
        sub(Sub { name: "c03.pairs", source: Source::Gen(pair_strategy, 6_000_000, 80_000_000), oracle: pair_oracle, known: no_known, hang_is_violation: false }),
        sub(Sub { name: "c03.triples", source: Source::Gen(triple_strategy, 1_200_000, 10_000_000), oracle: triple_oracle, known: no_known, hang_is_violation: false }),
        sub(Sub { name: "c03.sort", source: Source::Gen(sort_strategy, 120_000, 1_000_000), oracle: sort_oracle, known: no_known, hang_is_violation: false }),
        sub(Sub { name: "c03.special_pairs", source: Source::Enum(special_enum, |_| true), oracle: special_oracle, known: no_known, hang_is_violation: false }),
        sub(Sub { name: "c03.unit_cmp", source: Source::Gen(unitcmp_strategy, 1_200_000, 10_000_000), oracle: unitcmp_oracle, known: no_known, hang_is_violation: false }),
        crate::props::fuzzsub::fc03(),
    ]
}

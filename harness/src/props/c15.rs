//! C15 — TimeSeries yields exactly start + k*step, in order, up to the end bound
use crate::engine::*;
use crate::gen::*;
use crate::model::*;
use crate::{ensure, lib};
use hifitime::{Epoch, TimeSeries};
use proptest::prelude::*;
use serde::{Deserialize, Serialize};

pub const RULE: &str = "generated (start epoch in one of nine scales, positive step 1 ns .. 40 days, span = n*step + r with n in [0, 2000] and r in {0, 1 ns, step-1 ns, random}, inclusive flag, scale of the end epoch); every yielded item is compared with start + k*step computed in i128 (no accumulation), the number of items with the bound k*step < span (<= for inclusive), then None twice; thorough adds series of 2e6 items with 1-3 ns steps; c15.huge_prefix reads the first 48 items of series of up to 2^78 items (spans to the whole range, steps from 1 ns); c15.long_walk walks one 1 ns series of 2^24 items (thorough: 2^32 + 4096 items, past any 32-bit item counter); non-trivial = span not a multiple of the step, span an exact multiple (off-by-one edge), two scales involved, a leap entry or century boundary inside the series, or n = 0; evaluations counts series; distinct = distinct case tuples";

pub const ASSUMPTIONS: &[&str] = &[
    "the end epoch in another uniform scale or UTC is produced by the model; for ET/TDB ends the span is read from the library's own end - start",
    "series whose end would leave the representable range, or whose start/end fall inside an inserted leap second when a UTC count is needed, are skipped",
];

#[derive(Clone, Debug, Serialize, Deserialize)]
pub struct Series {
    pub start: Ep,
    pub step: i128,
    pub n: u32,
    pub r: i128,
    pub inclusive: bool,
    pub end_scale: usize,
}

fn step_strategy() -> BS<i128> {
    wunion(vec![
        // "from 1 ns upward": steps of years to centuries as well (the number of items is then capped by the range)
        (1, (40i128..200_000, 0i128..NS_D).prop_map(|(d, r)| d * NS_D + r).boxed()),
        (1, (1i128..=6, small_delta(3)).prop_map(|(c, d)| c * NPC + d).boxed()),
        (3, log_mag(52).prop_map(|m| m.min(40 * NS_D)).boxed()),
        (1, log_mag(68).boxed()),
        (3, (0usize..7, 1i128..=40).prop_map(|(u, k)| (k * UNIT_NS[u]).min(40 * NS_D)).boxed()),
        (2, (1i128..=3).boxed()),
    ])
}

fn series_strategy_with(max_n: u32, tiny_steps: bool) -> BS<Series> {
    let start = wunion(vec![
        (3, epoch_any(&ALL_SCALES)),
        // start just before a leap entry (UTC/TAI axis) or a century boundary so that the series crosses it
        (2, (0usize..9, 0usize..28, 0i128..3_000).prop_map(|(s, i, back)| {
            let ts = leap_entries_ns()[i].0 - back * NS_S;
            let c = match s { S_UTC => ts, S_ET | S_TDB => ts - j2000_ns(), _ => ts - zero_tai_ns(s) };
            Ep { s, c }
        }).boxed()),
        (2, (0usize..9, -3i128..=3, 0i128..1_000_000).prop_map(|(s, k, back)| Ep { s, c: k * NPC - back }).boxed()),
    ]);
    let step = if tiny_steps { (1i128..=3).boxed() } else { step_strategy() };
    // a quarter of the series are re-anchored so that item j lands exactly on a century boundary of the count
    let start = (start, -2i128..=2, 0u32..40, prop::bool::weighted(0.25)).prop_map(|(s, k, j, land)| (s, k, j, land));
    // the number of whole steps: mostly uniform, a share of very short series (0-3 steps: the off-by-one edges)
    let n_any = prop_oneof![5 => 0u32..=max_n, 1 => 0u32..=3];
    (start, step, n_any, 0u8..4, any::<u64>(), any::<bool>(), prop_oneof![3 => Just(99usize), 2 => (0usize..9)], prop::bool::weighted(0.08))
        .prop_map(|((start, k, j, land), step, n, rk, rr, inclusive, es, mirror)| {
            let start = if land { Ep { s: start.s, c: k * NPC - j as i128 * step } } else { start };
            // a series that straddles its own scale's reference epoch symmetrically: start = -m steps, end = +m steps
            let (start, n) = if mirror && step < 40 * NS_D { let m = (n % 40) as i128 + 1; (Ep { s: start.s, c: -m * step }, (2 * m) as u32) } else { (start, n) };
            // large steps: keep the series short so that it stays in range
            let n = if step > 400 * NS_D { n % 8 } else { n };
            let r = match rk {
                0 => 0,
                1 => 1.min(step - 1),
                2 => step - 1,
                _ => (rr as i128) % step,
            };
            Series { start, step, n, r, inclusive, end_scale: if es == 99 { start.s } else { es } }
        })
        .boxed()
}

fn series_strategy() -> BS<Series> {
    series_strategy_with(2000, false)
}

fn long_series_strategy() -> BS<Series> {
    series_strategy_with(2_000_000, true)
}

fn series_oracle(c: &Series) -> Verdict {
    let s1 = c.start.s;
    let s2 = c.end_scale;
    let mut span = c.n as i128 * c.step + c.r;
    let end_own = c.start.c + span;
    if !(end_own > DMIN + NPC && end_own < DMAX - NPC && c.start.c > DMIN + NPC) {
        return Verdict::Skip("a bound would be hit");
    }
    let start = c.start.lib();
    let end: Epoch = if s2 == s1 {
        Epoch::from_duration(mk(end_own), SCALES[s1])
    } else {
        // express the end instant in s2 by the model
        let exact = |s: usize| s != S_ET && s != S_TDB;
        let tai = to_tai(s1, end_own);
        let Some(c2) = from_tai(s2, tai) else {
            return Verdict::Skip("end inside an inserted leap second has no UTC count");
        };
        let e2 = Epoch::from_duration(mk(c2), SCALES[s2]);
        if !(exact(s1) && exact(s2)) {
            // ET/TDB involved: read the span back from the library's own difference
            span = count(lib!(e2 - start));
            if span < 0 {
                return Verdict::Skip("negative span after ET/TDB conversion");
            }
        } else {
            // end - start is measured in the END's scale after re-expressing the start in it (C04)
            let Some(start_in_s2) = from_tai(s2, to_tai(s1, c.start.c)) else {
                return Verdict::Skip("start inside an inserted leap second has no UTC count");
            };
            span = c2 - start_in_s2;
        }
        e2
    };
    let expected: i128 = if c.inclusive { span / c.step + 1 } else { (span + c.step - 1) / c.step };
    if expected > 2_100_000 {
        return Verdict::Skip("series longer than 2.1e6 items (span read back from an ET/TDB conversion)");
    }
    let step = mk(c.step);
    let mut it = if c.inclusive { lib!(TimeSeries::inclusive(start, end, step)) } else { lib!(TimeSeries::exclusive(start, end, step)) };
    let mut k: i128 = 0;
    let mut prev: Option<i128> = None;
    loop {
        let item = lib!(it.next());
        match item {
            Some(e) => {
                ensure!(k < expected, "item {} yielded past the end (expected {} items; span {} step {} inclusive {})", k, expected, span, c.step, c.inclusive);
                ensure!(e.time_scale == SCALES[s1], "item {} has scale {:?}, want the start's {:?}", k, e.time_scale, SCALES[s1]);
                let want = c.start.c + k * c.step;
                ensure!(count(e.duration) == want, "item {} has count {}, want start + k*step = {}", k, count(e.duration), want);
                ensure!(e.duration.to_parts() == mk(want).to_parts(), "item {} has parts {:?}, not the canonical form {:?} of its count", k, e.duration.to_parts(), mk(want).to_parts());
                if let Some(p) = prev {
                    ensure!(count(e.duration) > p, "items not strictly increasing at {}", k);
                }
                prev = Some(count(e.duration));
                k += 1;
            }
            None => break,
        }
    }
    ensure!(k == expected, "series ended after {} items, expected {} (span {} step {} inclusive {})", k, expected, span, c.step, c.inclusive);
    ensure!(lib!(it.next()).is_none(), "iterator yields again after None");
    ensure!(lib!(it.next()).is_none(), "iterator yields again after None (2)");
    // the same series consumed through the standard iterator adaptors (they must see the same items):
    // a program of nth(j) calls derived from the case, then count(), last(), skip(), step_by()
    if expected <= 5_000 {
        let fresh = || if c.inclusive { TimeSeries::inclusive(start, end, step) } else { TimeSeries::exclusive(start, end, step) };
        let item = |k: i128| c.start.c + k * c.step;
        let mut it2 = lib!(fresh());
        let mut pos: i128 = 0; // index of the next item a plain next() would yield
        let mut seed = (c.n as u64).wrapping_mul(0x9E37_79B9_7F4A_7C15) ^ (c.r as u64) ^ c.step as u64;
        for _ in 0..12 {
            seed = seed.wrapping_mul(6_364_136_223_846_793_005).wrapping_add(1_442_695_040_888_963_407);
            let j = ((seed >> 33) % 4) as usize;
            let got = lib!(it2.nth(j));
            let want_k = pos + j as i128;
            if want_k < expected {
                ensure!(matches!(got, Some(e) if count(e.duration) == item(want_k)), "after consuming {} items, nth({}) gives {:?}, want item {}", pos, j, got.map(|e| count(e.duration)), want_k);
                pos = want_k + 1;
            } else {
                ensure!(got.is_none(), "nth({}) past the end gives an item", j);
                pos = expected; // nth past the end consumes what was left
                break;
            }
        }
        // a partly consumed series (pos items taken) and the exhausted one seen through count() / last()
        let remaining = (expected - pos).max(0);
        ensure!(lib!(it2.clone().count()) as i128 == remaining, "after consuming {} of {} items, count() = {}, want {}", pos, expected, it2.clone().count(), remaining);
        ensure!(lib!(it2.clone().last()).map(|e| count(e.duration)) == if remaining > 0 { Some(item(expected - 1)) } else { None }, "after consuming {} of {} items, last() is wrong", pos, expected);
        ensure!(lib!(it.clone().count()) == 0, "count() of the exhausted series = {}, want 0 (span {} step {} inclusive {})", it.clone().count(), span, c.step, c.inclusive);
        ensure!(lib!(it.clone().last()).is_none() && lib!(it.clone().nth(0)).is_none(), "last() / nth(0) of the exhausted series yields an item");
        ensure!(lib!(fresh().count()) as i128 == expected, "count() = {}, want {}", fresh().count(), expected);
        let last = lib!(fresh().last());
        ensure!(last.map(|e| count(e.duration)) == if expected > 0 { Some(item(expected - 1)) } else { None }, "last() wrong");
        let sk = 1 + (seed >> 40) as usize % 3;
        let v: Vec<i128> = lib!({
            let mut it = fresh();
            let _ = it.next();
            it.skip(sk).step_by(2).take(6).map(|e| count(e.duration)).collect()
        });
        let want_v: Vec<i128> = (0..6).map(|i| 1 + sk as i128 + 2 * i).filter(|k| *k < expected).map(item).collect();
        ensure!(v == want_v, "next(); skip({}).step_by(2) gives {:?}, want {:?}", sk, v, want_v);
        let fl: Vec<i128> = lib!({
            let mut out = vec![];
            for e in fresh() {
                out.push(count(e.duration));
                if out.len() > 6 {
                    break;
                }
            }
            out
        });
        ensure!(fl.iter().enumerate().all(|(k, x)| *x == item(k as i128)), "for-loop items differ");
    }
    let crosses_century = c.start.c.div_euclid(NPC) != (c.start.c + span).div_euclid(NPC);
    let crosses_leap = { let a = to_tai(s1, c.start.c); let b = to_tai(s1, c.start.c + span); leap_entries_ns().iter().any(|(ts, _, _)| a <= *ts + 40 * NS_S && b >= *ts) };
    let class = if c.n == 0 {
        "n=0"
    } else if s1 != s2 {
        "two-scales"
    } else if crosses_leap {
        "crosses-leap"
    } else if crosses_century {
        "crosses-century"
    } else if span % c.step == 0 {
        "exact-multiple"
    } else {
        "not-multiple"
    };
    Verdict::Pass(class, true)
}

// ---------------------------------------------------------------- very long series: the first items
#[derive(Clone, Debug, Serialize, Deserialize)]
pub struct Huge {
    pub start: Ep,
    pub step: i128,
    pub span: i128,
    pub inclusive: bool,
}

fn huge_strategy() -> BS<Huge> {
    // spans up to the whole representable range with steps from 1 ns: up to 2^78 items, of which the first 48 are read
    let start = wunion(vec![(3, epoch_any(&ALL_SCALES)), (1, (0usize..9, log_mag(76)).prop_map(|(s, d)| Ep { s, c: DMIN + NPC + d }).boxed())]);
    (start, log_mag(78), prop_oneof![2 => log_mag(40), 1 => log_mag(70), 1 => (1i128..=3)], any::<bool>())
        .prop_map(|(start, span, step, inclusive)| Huge { start, step, span, inclusive })
        .boxed()
}

fn huge_oracle(c: &Huge) -> Verdict {
    let end_c = c.start.c + c.span;
    if !(c.start.c > DMIN + NPC && end_c < DMAX - NPC) {
        return Verdict::Skip("a bound would be hit");
    }
    let start = c.start.lib();
    let end = Epoch::from_duration(mk(end_c), SCALES[c.start.s]);
    let step = mk(c.step);
    let expected: i128 = if c.inclusive { c.span / c.step + 1 } else { (c.span + c.step - 1) / c.step };
    let mut it = if c.inclusive { lib!(TimeSeries::inclusive(start, end, step)) } else { lib!(TimeSeries::exclusive(start, end, step)) };
    for k in 0..48i128 {
        let item = lib!(it.next());
        if k < expected {
            let want = c.start.c + k * c.step;
            ensure!(matches!(item, Some(e) if e.time_scale == SCALES[c.start.s] && e.duration.to_parts() == mk(want).to_parts()), "item {} of a series of {} items (span {} ns, step {} ns, inclusive {}) is {:?}, want count {}", k, expected, c.span, c.step, c.inclusive, item.map(|e| e.duration.to_parts()), want);
        } else {
            ensure!(item.is_none(), "item {} yielded past the end of a series of {} items", k, expected);
            break;
        }
    }
    let class = if expected > (1i128 << 63) { "items>=2^63" } else if expected > (1i128 << 32) { "items>=2^32" } else if expected > 2_100_000 { "items>2.1e6" } else { "short" };
    Verdict::Pass(class, class != "short")
}

// ---------------------------------------------------------------- one long walk (item counter width)
#[derive(Clone, Debug, Serialize, Deserialize)]
pub struct Walk {
    pub items: u64,
}

fn walk_enum(t: Tier, shard: usize, sink: &mut dyn FnMut(Walk) -> bool) {
    // quick: 2^24 items; thorough: past 2^32 items (a 32-bit item counter would wrap or overflow there)
    if shard == 0 {
        sink(Walk { items: if t == Tier::Thorough { (1u64 << 32) + 4096 } else { 1u64 << 24 } });
    }
}

fn walk_oracle(c: &Walk) -> Verdict {
    let start = Epoch::from_duration(mk(-1000), SCALES[S_TAI]);
    let end = Epoch::from_duration(mk(-1000 + c.items as i128), SCALES[S_TAI]);
    let it = lib!(TimeSeries::exclusive(start, end, mk(1)));
    let mut k: u64 = 0;
    for e in it {
        let want = -1000 + k as i128;
        if e.duration.to_parts() != mk(want).to_parts() {
            return Verdict::Fail(format!("item {} of a 1 ns series has parts {:?}, want count {}", k, e.duration.to_parts(), want));
        }
        k += 1;
        if k > c.items {
            return Verdict::Fail(format!("the series yields more than its {} items", c.items));
        }
    }
    ensure!(k == c.items, "a 1 ns series over {} ns ended after {} items", c.items, k);
    Verdict::Pass(if c.items > u32::MAX as u64 { "past-2^32-items" } else { "2^24-items" }, true)
}

pub fn subs() -> Vec<Box<dyn DynSub>> {
    vec![
        sub(Sub { name: "c15.series", source: Source::Gen(series_strategy, 192_000, 1_000_000), oracle: series_oracle, known: no_known, hang_is_violation: true }),
        sub(Sub { name: "c15.long_series", source: Source::Gen(long_series_strategy, 64, 640), oracle: series_oracle, known: no_known, hang_is_violation: true }),
        sub(Sub { name: "c15.huge_prefix", source: Source::Gen(huge_strategy, 400_000, 4_000_000), oracle: huge_oracle, known: no_known, hang_is_violation: true }),
        sub(Sub { name: "c15.long_walk", source: Source::Enum(walk_enum, |_| true), oracle: walk_oracle, known: no_known, hang_is_violation: false }),
        crate::props::fuzzsub::fc15(),
    ]
}

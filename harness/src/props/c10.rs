//! C10 — Epoch text and serde round-trip: parse(format(e)) == e, to the nanosecond
use crate::engine::*;
use crate::gen::*;
use crate::model::*;
use crate::{ensure, lib};
use hifitime::efmt::consts::ISO8601;
use hifitime::efmt::Formatter;
use hifitime::{Epoch, HifitimeError, TimeScale};
use proptest::prelude::*;
use serde::{Deserialize, Serialize};
use std::str::FromStr;

pub const RULE: &str = "generated epochs with calendar year 0001-9999 in nine scales at ns resolution (every time-of-day class), formatted by the library (Display, Formatter(ISO8601), to_gregorian_str(own), to_rfc3339 for UTC, serde_json) and parsed back; model-generated ISO 8601 / RFC 3339 text YYYY-MM-DD('T'|' ')HH:MM:SS[.d{1,9}]('Z'|+-hh:mm)?(' 'SCALE)? with every offset -23:59..+23:59 and every fraction length; numeric forms JD/MJD/SEC x printed with Rust's shortest round-trip formatting; oracle = identical (time scale, parts) for library text, the model instant for grammar text, the affine value within float resolution for numeric forms; non-trivial = non-zero fraction with < 9 digits, an offset present, year < 1000, scale != UTC, or a numeric form; distinct = distinct case tuples (hash set, capped: lower bound)";

pub const ASSUMPTIONS: &[&str] = &[
    "an offset shifts the instant by exactly hh:mm in the count of the named scale (UTC if none)",
    "numeric forms: SEC x S is x seconds after S's reference; MJD x / JD x in TAI and UTC are (x - 15020) / (x - 2415020.5) days after 1900-01-01 of that scale; tolerance 2 ulp(max(|x|, |c|, |x - c|)) in the unit plus 2 ulp of the nanosecond product plus 2 ns; values denoting instants outside years 0001-9999 (with margin) are skipped",
    "JD/MJD in the GNSS scales and TT, JD in ET/TDB: not asserted (any error is accepted; what 'MJD x GST' denotes is not documented)",
];

// ---------------------------------------------------------------- library text round trips
#[derive(Clone, Debug, Serialize, Deserialize)]
pub struct Rt {
    /// ns since 1900-01-01T00:00:00 in the scale's own calendar, year 0001..9999
    pub g: i128,
    pub s: usize,
}

fn rt_strategy() -> BS<Rt> {
    (ns1900_0001_9999(), 0usize..9).prop_map(|(g, s)| Rt { g, s }).boxed()
}

fn same(a: &Epoch, b: &Epoch) -> bool {
    a.time_scale == b.time_scale && a.duration.to_parts() == b.duration.to_parts()
}

fn parse_both(txt: &str) -> Result<Result<Epoch, HifitimeError>, String> {
    let a = guard(|| Epoch::from_str(txt))?;
    let b = guard(|| Epoch::from_gregorian_str(txt))?;
    match (&a, &b) {
        (Ok(x), Ok(y)) if same(x, y) => {}
        (Err(_), Err(_)) => {}
        _ => return Err(format!("from_str and from_gregorian_str disagree on {:?}: {:?} vs {:?}", txt, a.as_ref().map(|e| format!("{e}")), b.as_ref().map(|e| format!("{e}")))),
    }
    Ok(a)
}

pub fn rt_oracle(c: &Rt) -> Verdict {
    let cnt = c.g - greg_offset_ns(c.s);
    let ts = SCALES[c.s];
    let e = Epoch::from_duration(mk(cnt), ts);
    let texts: Vec<(&str, String)> = vec![
        ("Display", lib!(format!("{e}"))),
        ("Formatter(ISO8601)", lib!(format!("{}", Formatter::new(e, ISO8601)))),
        ("to_gregorian_str(own)", lib!(e.to_gregorian_str(ts))),
        // the flexible ISO 8601 formatter leaves out a zero fraction and the UTC suffix: the text denotes the same epoch
        ("Formatter(ISO8601_FLEX)", lib!(format!("{}", Formatter::new(e, hifitime::efmt::consts::ISO8601_FLEX)))),
    ];
    for (what, txt) in &texts {
        match parse_both(txt) {
            Ok(Ok(p)) => ensure!(same(&p, &e), "{} of {} count {} is {:?}, which parses to {} count {}", what, SCALE_NAMES[c.s], cnt, txt, SCALE_NAMES[scale_index(p.time_scale)], count(p.duration)),
            Ok(Err(err)) => return Verdict::Fail(format!("{} text {:?} does not parse: {:?}", what, txt, err)),
            Err(m) => return Verdict::Fail(m),
        }
    }
    // the identical elapsed time in another time scale, formatted right afterwards, is another date: its own round trip
    {
        let s2 = [S_GPST, S_ET, S_TAI, S_BDT, S_UTC, S_TT, S_QZSST, S_GST, S_TDB][c.s];
        let e2 = Epoch::from_duration(mk(cnt), SCALES[s2]);
        let txt2 = lib!(format!("{e2}"));
        // (text of years outside 0001-9999 is not asserted to parse, as for the first epoch)
        let y2 = greg_of_ns1900(cnt + greg_offset_ns(s2)).y;
        if (1..=9999).contains(&y2) {
        match parse_both(&txt2) {
            Ok(Ok(p)) => ensure!(same(&p, &e2), "Display of {} count {} (right after the same count in {}) is {:?}, which parses to {} count {}", SCALE_NAMES[s2], cnt, SCALE_NAMES[c.s], txt2, SCALE_NAMES[scale_index(p.time_scale)], count(p.duration)),
            Ok(Err(err)) => return Verdict::Fail(format!("Display text {:?} does not parse: {:?}", txt2, err)),
            Err(m) => return Verdict::Fail(m),
        }
        }
        // and the first epoch again
        let again = lib!(format!("{e}"));
        ensure!(again == texts[0].1, "Display of {} count {} changed from {:?} to {:?} after another epoch was formatted", SCALE_NAMES[c.s], cnt, texts[0].1, again);
    }
    // serde
    match lib!(serde_json::to_string(&e)) {
        Ok(j) => {
            ensure!(j == format!("\"{}\"", texts[0].1), "JSON form {:?} is not the quoted display form", j);
            match lib!(serde_json::from_str::<Epoch>(&j)) {
                Ok(p) => ensure!(same(&p, &e), "serde round trip of {:?} gives {} count {}", j, SCALE_NAMES[scale_index(p.time_scale)], count(p.duration)),
                Err(err) => return Verdict::Fail(format!("JSON {:?} does not deserialize: {}", j, err)),
            }
            // the other deserialization routes: an owned value, a reader, an escaped spelling
            match lib!(serde_json::from_value::<Epoch>(serde_json::Value::String(texts[0].1.clone()))) {
                Ok(p) => ensure!(same(&p, &e), "from_value round trip of {:?} differs", j),
                Err(err) => return Verdict::Fail(format!("JSON value {:?} does not deserialize: {}", texts[0].1, err)),
            }
            match lib!(serde_json::from_reader::<_, Epoch>(j.as_bytes())) {
                Ok(p) => ensure!(same(&p, &e), "from_reader round trip of {:?} differs", j),
                Err(err) => return Verdict::Fail(format!("JSON {:?} does not deserialize from a reader: {}", j, err)),
            }
            let escaped = j.replace('T', "\\u0054");
            match lib!(serde_json::from_str::<Epoch>(&escaped)) {
                Ok(p) => ensure!(same(&p, &e), "escaped JSON {:?} differs", escaped),
                Err(err) => return Verdict::Fail(format!("escaped JSON {:?} does not deserialize: {}", escaped, err)),
            }
        }
        Err(err) => return Verdict::Fail(format!("serialization fails: {err}")),
    }
    // and through a data format that is not human readable (bincode / postcard style)
    match lib!(crate::binfmt::to_tokens(&e)) {
        Ok(t) => match lib!(crate::binfmt::from_tokens::<Epoch>(&t)) {
            Ok(p) => ensure!(same(&p, &e), "round trip through a non-human-readable serde format gives {} count {} (tokens {:?})", SCALE_NAMES[scale_index(p.time_scale)], count(p.duration), t),
            Err(err) => return Verdict::Fail(format!("what Serialize writes for a non-human-readable format ({:?}) is not accepted by Deserialize: {}", t, err)),
        },
        Err(err) => return Verdict::Fail(format!("serialization to a non-human-readable format fails: {err}")),
    }
    // RFC 3339 of a UTC epoch
    if c.s == S_UTC {
        for (what, t) in [("Formatter(RFC3339)", lib!(format!("{}", Formatter::new(e, hifitime::efmt::consts::RFC3339)))), ("Formatter(RFC3339_FLEX)", lib!(format!("{}", Formatter::new(e, hifitime::efmt::consts::RFC3339_FLEX))))] {
            match parse_both(&t) {
                Ok(Ok(p)) => ensure!(same(&p, &e), "{} {:?} parses to count {}, want {}", what, t, count(p.duration), cnt),
                Ok(Err(err)) => return Verdict::Fail(format!("{} text {:?} does not parse: {:?}", what, t, err)),
                Err(m) => return Verdict::Fail(m),
            }
        }
        let r = lib!(e.to_rfc3339());
        match parse_both(&r) {
            Ok(Ok(p)) => ensure!(same(&p, &e), "to_rfc3339 {:?} parses to count {}, want {}", r, count(p.duration), cnt),
            Ok(Err(err)) => return Verdict::Fail(format!("to_rfc3339 text {:?} does not parse: {:?}", r, err)),
            Err(m) => return Verdict::Fail(m),
        }
    }
    let g = greg_of_ns1900(c.g);
    let class = if g.ns != 0 && g.ns % 10 == 0 { "fraction-trailing-zeros" } else if g.y < 1000 { "year<1000" } else if c.s != S_UTC { "scale!=UTC" } else { "plain" };
    Verdict::Pass(class, class != "plain")
}

// ---------------------------------------------------------------- grammar text
#[derive(Clone, Debug, Serialize, Deserialize)]
pub struct Gram {
    pub day: i64,
    pub hh: u32,
    pub mm: u32,
    pub ss: u32,
    /// fraction digits as text ("" = none)
    pub frac: String,
    pub space_sep: bool,
    /// 0 none, 1 'Z', 2 +hh:mm, 3 -hh:mm
    pub tz: u8,
    pub oh: u32,
    pub om: u32,
    /// None = no suffix; Some((scale index, alias?))
    pub suffix: Option<(usize, bool)>,
}

const ALIASES: [&str; 9] = ["TAI", "TT", "ET", "TDB", "UTC", "GPS", "GAL", "BDS", "QZSS"];

fn gram_strategy() -> BS<Gram> {
    let frac = prop_oneof![
        2 => Just(String::new()),
        5 => (1usize..=9, any::<u32>()).prop_map(|(w, r)| format!("{:0w$}", (r as u64) % 10u64.pow(w as u32), w = w)),
        1 => (1usize..=9).prop_map(|w| "0".repeat(w)),
        1 => (1usize..=9).prop_map(|w| "9".repeat(w)),
    ];
    // the day: any day, or a day that ends with a leap second / the day after it (an offset then carries the label
    // across the inserted second)
    let day = prop_oneof![6 => day_0001_9999(), 1 => (1usize..28, 0i64..=1).prop_map(|(i, dd)| leap_table()[i].0 / 86_400 - 1 + dd)];
    let hour = prop_oneof![4 => 0u32..24, 1 => prop::sample::select(vec![0u32, 1, 22, 23])];
    (day, hour, 0u32..60, 0u32..60, frac, any::<bool>(), 0u8..4, 0u32..24, 0u32..60, proptest::option::of((0usize..9, prop::bool::weighted(0.2))))
        .prop_map(|(day, hh, mm, ss, frac, space_sep, tz, oh, om, suffix)| {
            // 'Z' designates UTC: only combine it with no suffix or the UTC suffix
            let suffix = match (tz, suffix) {
                (1, Some((s, _))) if s != S_UTC => None,
                (_, s) => s,
            };
            Gram { day, hh, mm, ss, frac, space_sep, tz, oh, om, suffix }
        })
        .boxed()
}

fn gram_text(c: &Gram) -> String {
    let g = greg_of_ns1900(c.day as i128 * NS_D);
    let mut s = format!("{:04}-{:02}-{:02}{}{:02}:{:02}:{:02}", g.y, g.m, g.d, if c.space_sep { ' ' } else { 'T' }, c.hh, c.mm, c.ss);
    if !c.frac.is_empty() {
        s.push('.');
        s.push_str(&c.frac);
    }
    match c.tz {
        1 => s.push('Z'),
        2 => s.push_str(&format!("+{:02}:{:02}", c.oh, c.om)),
        3 => s.push_str(&format!("-{:02}:{:02}", c.oh, c.om)),
        _ => {}
    }
    if let Some((sc, alias)) = c.suffix {
        s.push(' ');
        s.push_str(if alias { ALIASES[sc] } else { SCALE_NAMES[sc] });
    }
    s
}

pub fn gram_oracle(c: &Gram) -> Verdict {
    let txt = gram_text(c);
    let sc = c.suffix.map(|(s, _)| s).unwrap_or(S_UTC);
    let frac_ns: i128 = if c.frac.is_empty() { 0 } else { format!("{:0<9}", c.frac).parse::<i128>().unwrap() };
    let local = c.day as i128 * NS_D + c.hh as i128 * NS_H + c.mm as i128 * NS_MIN + c.ss as i128 * NS_S + frac_ns;
    let off = (c.oh as i128 * NS_H + c.om as i128 * NS_MIN) * match c.tz { 2 => 1, 3 => -1, _ => 0 };
    let want = local - off - greg_offset_ns(sc);
    match parse_both(&txt) {
        Ok(Ok(p)) => {
            ensure!(p.time_scale == SCALES[sc], "{:?} parsed into scale {:?}, want {}", txt, p.time_scale, SCALE_NAMES[sc]);
            ensure!(count(p.duration) == want, "{:?} parsed to count {}, want {} (difference {} ns)", txt, count(p.duration), want, count(p.duration) - want);
        }
        Ok(Err(err)) => return Verdict::Fail(format!("{:?} does not parse: {:?}", txt, err)),
        Err(m) => return Verdict::Fail(m),
    }
    let class = if c.tz >= 2 { "offset" } else if !c.frac.is_empty() && c.frac.len() < 9 { "short-fraction" } else if sc != S_UTC { "scale!=UTC" } else if c.tz == 1 { "Z" } else { "plain" };
    Verdict::Pass(class, class != "plain")
}

// ---------------------------------------------------------------- numeric forms
#[derive(Clone, Debug, Serialize, Deserialize)]
pub struct Num {
    /// 0 JD 1 MJD 2 SEC
    pub form: u8,
    pub x: Fl,
    pub s: usize,
    pub alias: bool,
}

fn num_strategy() -> BS<Num> {
    let days = prop_oneof![
        3 => (-3_652_425i64..=3_652_425, any::<u64>()).prop_map(|(d, r)| d as f64 + (r >> 11) as f64 / (1u64 << 53) as f64),
        2 => (-3_652_425i64..=3_652_425).prop_map(|d| d as f64),
        1 => (-3_652_425i64..=3_652_425).prop_map(|d| d as f64 + 0.5),
        2 => (30_000i64..50_000, 0u32..86_400).prop_map(|(d, s)| d as f64 + s as f64 / 86_400.0),
    ];
    (0u8..3, days, 0usize..9, prop::bool::weighted(0.15), 0u32..1_000_000_000)
        .prop_map(|(form, d, s, alias, sub)| {
            let x = match form {
                0 => d + 2_415_020.5,
                1 => d + 15_020.0,
                _ => (d * 86_400.0).trunc() + if sub % 3 == 0 { 0.0 } else { sub as f64 * 1e-9 },
            };
            Num { form, x: Fl::of(x), s, alias }
        })
        .boxed()
}

pub fn num_oracle(c: &Num) -> Verdict {
    let x = c.x.v();
    let name = if c.alias { ALIASES[c.s] } else { SCALE_NAMES[c.s] };
    let txt = format!("{} {} {}", ["JD", "MJD", "SEC"][c.form as usize], x, name);
    let r = lib!(Epoch::from_str(&txt));
    let uniform_or_utc = is_uniform(c.s) || c.s == S_UTC;
    // which combinations must parse (statement: numeric forms in the uniform scales and UTC)
    let asserted = match c.form {
        2 => uniform_or_utc,
        _ => c.s == S_TAI || c.s == S_UTC,
    };
    match r {
        Ok(e) => {
            if !asserted {
                // ET/TDB forms (approximate / C07's) and JD/MJD in GNSS scales or TT: only the time scale is checked
                if c.form == 2 || c.s == S_ET || c.s == S_TDB {
                    // SEC in ET/TDB: x seconds after J2000 of that scale
                    if c.form == 2 {
                        ensure!(e.time_scale == SCALES[c.s], "{:?} parsed into scale {:?}", txt, e.time_scale);
                        let want = x * 1e9;
                        ensure!((count(e.duration) as f64 - want).abs() <= 2.0 * ulp(x) * 1e9 + 1.0, "{:?}: count {} want {}", txt, count(e.duration), want);
                        return Verdict::Pass("sec-dynamical", true);
                    }
                }
                return Verdict::Skip("JD/MJD in this scale: denotation not documented");
            }
            ensure!(e.time_scale == SCALES[c.s], "{:?} parsed into scale {:?}, want {}", txt, e.time_scale, SCALE_NAMES[c.s]);
            let (cst, unit_ns) = match c.form { 0 => (2_415_020.5, NS_D), 1 => (15_020.0, NS_D), _ => (0.0, NS_S) };
            // exact value (x - c) * unit in ns: x * unit by limb-wise exact multiplication (truncated, < 1 ns off),
            // c * unit is an integer
            let c_ns: i128 = match c.form { 0 => 2_415_020 * NS_D + NS_D / 2, 1 => 15_020 * NS_D, _ => 0 };
            let exact_ns = (mul_f64_trunc(unit_ns, x).unwrap() - c_ns) as f64;
            // outside the statement's span (calendar years 0001-9999, with margin): not asserted
            if exact_ns.abs() > 12_000.0 * 366.0 * NS_D as f64 {
                return Verdict::Skip("numeric value outside the span of years 0001-9999");
            }
            // resolution of a float of that magnitude: of x, of the constant, of their difference (which can be
            // the largest of the three for negative x), and of the nanosecond product itself
            let diff_mag = exact_ns.abs() / unit_ns as f64;
            let tol = 2.0 * ulp(x.abs().max(cst).max(diff_mag)) * unit_ns as f64 + 2.0 * ulp(exact_ns.abs().max(1.0)) + 2.0;
            let got = count(e.duration) as f64;
            ensure!((got - exact_ns).abs() <= tol, "{:?}: count {} is {} ns away from the value denoted ({}), tolerance {}", txt, count(e.duration), got - exact_ns, exact_ns, tol);
            Verdict::Pass(["JD", "MJD", "SEC"][c.form as usize], true)
        }
        Err(err) => {
            if asserted {
                return Verdict::Fail(format!("{:?} does not parse: {:?}", txt, err));
            }
            // any error is accepted for the combinations the statement does not cover
            let _ = err;
            Verdict::Skip("combination rejected (not covered by the statement)")
        }
    }
}

// ---------------------------------------------------------------- text naming a leap second (enumerated)
/// "YYYY-MM-DDT23:59:60" on each of the 27 days that end with an IERS leap second, in six spellings: accepted, and
/// the same epoch as the constructor builds from those fields (the enumeration is C13's: every month end 1958-2040)
fn leap_text_value_oracle(c: &crate::props::c13::LeapText) -> Verdict {
    let m = if c.m == 0 { if c.june { 6 } else { 12 } } else { c.m as u32 };
    let d = month_len(c.y, m) - c.back as u32;
    let next_day_s = (days_1900(c.y, m, d) + 1) * 86_400;
    let is_leap_day = c.hh == 23 && c.mm == 59 && leap_table().iter().skip(1).any(|(ts, _)| *ts == next_day_s);
    if !is_leap_day {
        return Verdict::Skip("no leap second there (rejection is C13's subject)");
    }
    let body = format!("{:04}-{:02}-{:02}{}23:59:60", c.y, m, d, if c.form == 4 { ' ' } else { 'T' });
    let (txt, ts, ns) = match c.form {
        1 => (format!("{body} UTC"), TimeScale::UTC, 0),
        2 => (format!("{body}Z"), TimeScale::UTC, 0),
        3 => (format!("{body} TAI"), TimeScale::TAI, 0),
        5 => (format!("{body}.5 UTC"), TimeScale::UTC, 500_000_000),
        _ => (body, TimeScale::UTC, 0),
    };
    let txt = txt.as_str();
    let want = match lib!(Epoch::maybe_from_gregorian(c.y as i32, m as u8, d as u8, 23, 59, 60, ns, ts)) {
        Ok(e) => e,
        Err(e) => return Verdict::Fail(format!("the constructor rejects 23:59:60 on {}-{}-{}: {:?}", c.y, m, d, e)),
    };
    match parse_both(txt) {
        Ok(Ok(p)) => ensure!(same(&p, &want), "{:?} parses to {} count {}, the constructor builds {} count {}", txt, SCALE_NAMES[scale_index(p.time_scale)], count(p.duration), SCALE_NAMES[scale_index(want.time_scale)], count(want.duration)),
        Ok(Err(err)) => return Verdict::Fail(format!("{:?} (a leap second announced by IERS) does not parse: {:?}", txt, err)),
        Err(m) => return Verdict::Fail(m),
    }
    Verdict::Pass("leap-second-text", true)
}

pub fn subs() -> Vec<Box<dyn DynSub>> {
    vec![
        sub(Sub { name: "c10.library_text", source: Source::Gen(rt_strategy, 1_600_000, 15_000_000), oracle: rt_oracle, known: no_known, hang_is_violation: false }),
        sub(Sub { name: "c10.grammar_text", source: Source::Gen(gram_strategy, 1_600_000, 15_000_000), oracle: gram_oracle, known: no_known, hang_is_violation: false }),
        sub(Sub { name: "c10.numeric_forms", source: Source::Gen(num_strategy, 800_000, 5_000_000), oracle: num_oracle, known: no_known, hang_is_violation: false }),
        sub(Sub { name: "c10.leap_second_text", source: Source::Enum(crate::props::c13::leap_text_enum, |_| true), oracle: leap_text_value_oracle, known: no_known, hang_is_violation: false }),
        crate::props::fuzzsub::c10_fuzz(),
        crate::props::fuzzsub::fc10(),
    ]
}

//! C05 — TAI/TT/GPST/QZSST/GST/BDT conversions are exact, constant-offset and invertible
use crate::engine::*;
use crate::gen::*;
use crate::model::*;
use crate::{ensure, lib};
use hifitime::{Duration, Epoch, TimeScale};
use proptest::prelude::*;
use serde::{Deserialize, Serialize};

pub const RULE: &str = "all 36 ordered pairs of the six uniform scales (drawn uniformly, so each pair gets 1/36 of the cases) x generated counts (dense within +-10 000 years, then out to the bounds) x a generated duration; oracle = count_B = count_A + zero_A - zero_B with the zeros computed from the civil reference dates and lags of the statement; non-trivial = source != target and (count negative in source or target, or the two counts have different century fields); the constants sub-check is an exhaustive enumeration; distinct = distinct case tuples (hash set, capped: lower bound); walks (c05.chain): non-trivial = at least two conversions to a different scale and the walk passes through three or more scales or before a reference epoch";

pub const ASSUMPTIONS: &[&str] = &[
    "offsets are computed in the harness from the civil dates 1900-01-01, 1980-01-06, 1999-08-22, 2006-01-01 and the lags 0, -32.184, 19, 19, 19, 33 s of the statement, not copied from the source",
    "cases whose converted count would leave the representable range are skipped",
];

#[derive(Clone, Debug, Serialize, Deserialize)]
pub struct Conv {
    pub a: usize,
    pub b: usize,
    pub c: i128,
    pub d: i128,
}

fn conv_strategy() -> BS<Conv> {
    let count = wunion(vec![
        (5, tai_count_any()),
        (2, count_any()),
        (2, (-32i128..=32, small_delta(3)).prop_map(|(k, d)| k * NPC + d).boxed()),
        // so that the *target* count sits at a century boundary: handled by adding each offset
        (2, (0usize..6, 0usize..6, -3i128..=3, small_delta(2)).prop_map(|(a, b, k, d)| k * NPC + d - zero_tai_ns(UNIFORM[a]) + zero_tai_ns(UNIFORM[b])).boxed()),
        // so that the reading in SOME uniform scale is a whole number of seconds (or milliseconds) while the others
        // carry the fraction of the offset between them (.184 / .816)
        (2, (0usize..6, 0usize..6, -300_000_000_000i128..=300_000_000_000, prop_oneof![3 => Just(0i128), 1 => (0i128..1000).prop_map(|ms| ms * 1_000_000)])
            .prop_map(|(a, b, sec, frac)| sec * NS_S + frac - zero_tai_ns(UNIFORM[a]) + zero_tai_ns(UNIFORM[b]))
            .boxed()),
    ]);
    let dur = prop_oneof![small_delta(3), (any::<bool>(), log_mag(70)).prop_map(|(s, m)| if s { -m } else { m }), (0usize..9, -100i128..100).prop_map(|(u, k)| k * UNIT_NS[u])];
    (0usize..6, 0usize..6, count, dur).prop_map(|(a, b, c, d)| Conv { a: UNIFORM[a], b: UNIFORM[b], c, d }).boxed()
}

fn inr(x: i128) -> bool {
    x > DMIN && x < DMAX
}

pub fn accessor(e: &Epoch, s: usize) -> Duration {
    match s {
        S_TAI => e.to_tai_duration(),
        S_TT => e.to_tt_duration(),
        S_GPST => e.to_gpst_duration(),
        S_QZSST => e.to_qzsst_duration(),
        S_GST => e.to_gst_duration(),
        S_BDT => e.to_bdt_duration(),
        _ => unreachable!(),
    }
}

fn constructor(d: Duration, s: usize) -> Epoch {
    match s {
        S_TAI => Epoch::from_tai_duration(d),
        S_TT => Epoch::from_tt_duration(d),
        S_GPST => Epoch::from_gpst_duration(d),
        S_QZSST => Epoch::from_qzsst_duration(d),
        S_GST => Epoch::from_gst_duration(d),
        S_BDT => Epoch::from_bdt_duration(d),
        _ => unreachable!(),
    }
}

fn conv_oracle(c: &Conv) -> Verdict {
    let tai = c.c + zero_tai_ns(c.a);
    let want = tai - zero_tai_ns(c.b);
    // every intermediate must stay representable (the library goes through TAI)
    if !inr(c.c) || !inr(tai) || !inr(want) || !inr(c.c + c.d) || !inr(tai + c.d) || !inr(want + c.d) || !inr(c.d) {
        return Verdict::Skip("a bound would be hit");
    }
    let e = Epoch::from_duration(mk(c.c), SCALES[c.a]);
    let r = lib!(e.to_time_scale(SCALES[c.b]));
    ensure!(r.time_scale == SCALES[c.b], "result scale {:?} want {:?}", r.time_scale, SCALES[c.b]);
    ensure!(canonical(r.duration), "non canonical result");
    ensure!(
        count(r.duration) == want,
        "{} count {} -> {}: got {}, want {}",
        SCALE_NAMES[c.a], c.c, SCALE_NAMES[c.b], count(r.duration), want
    );
    // back
    let back = lib!(r.to_time_scale(SCALES[c.a]));
    ensure!(back.time_scale == SCALES[c.a] && back.duration.to_parts() == e.duration.to_parts(), "round trip {}->{}->{} changed count {} into {}", SCALE_NAMES[c.a], SCALE_NAMES[c.b], SCALE_NAMES[c.a], c.c, count(back.duration));
    // identity
    let same = lib!(e.to_time_scale(SCALES[c.a]));
    ensure!(same.duration.to_parts() == e.duration.to_parts() && same.time_scale == e.time_scale, "conversion to own scale is not the identity");
    // commutes with adding a duration
    let d = mk(c.d);
    let lhs = lib!((e + d).to_time_scale(SCALES[c.b]));
    let rhs = lib!(e.to_time_scale(SCALES[c.b]) + d);
    ensure!(lhs.duration.to_parts() == rhs.duration.to_parts() && lhs.time_scale == rhs.time_scale, "conversion does not commute with + {}", c.d);
    // the same instant in two uniform scales compares equal, and one nanosecond later compares greater
    {
        use std::cmp::Ordering;
        ensure!(lib!(e == r) && lib!(r == e) && lib!(e.cmp(&r)) == Ordering::Equal && lib!(r.cmp(&e)) == Ordering::Equal, "{} count {} and its conversion to {} do not compare equal", SCALE_NAMES[c.a], c.c, SCALE_NAMES[c.b]);
        let later = lib!(e + Duration::from_total_nanoseconds(1));
        ensure!(lib!(later > r) && lib!(r < later) && lib!(later.cmp(&r)) == Ordering::Greater && lib!(r.cmp(&later)) == Ordering::Less, "{} count {} + 1 ns does not compare greater than its conversion to {}", SCALE_NAMES[c.a], c.c, SCALE_NAMES[c.b]);
    }
    // the instant as far BEFORE 1900-01-01 TAI as e lies after it (or vice versa), expressed in the target scale, is a
    // different instant: never equal, ordered by sign
    {
        let m = -tai - zero_tai_ns(c.b);
        if tai != 0 && inr(m) {
            let f = Epoch::from_duration(mk(m), SCALES[c.b]);
            ensure!(!lib!(e == f) && !lib!(f == e) && lib!(e != f), "{} count {} compares equal to its mirror image about 1900, {} count {}", SCALE_NAMES[c.a], c.c, SCALE_NAMES[c.b], m);
            ensure!(lib!(e > f) == (tai > 0) && lib!(f < e) == (tai > 0), "{} count {} vs its mirror image {} count {}: wrong order", SCALE_NAMES[c.a], c.c, SCALE_NAMES[c.b], m);
        }
    }
    // text views of the target reading: the Gregorian string in the target scale, {:x} (TAI) and {:X} (TT)
    {
        let gw = want + greg_offset_ns(c.b);
        let g = greg_of_ns1900(gw);
        if (1..=9999).contains(&g.y) {
            let txt = format!("{} {}", render_iso(&g), SCALE_NAMES[c.b]);
            ensure!(lib!(e.to_gregorian_str(SCALES[c.b])) == txt, "to_gregorian_str({}) of {} count {} = {:?}, want {:?}", SCALE_NAMES[c.b], SCALE_NAMES[c.a], c.c, e.to_gregorian_str(SCALES[c.b]), txt);
            if c.b == S_TAI {
                ensure!(lib!(format!("{e:x}")) == txt, "{{:x}} of {} count {} = {:?}, want {:?}", SCALE_NAMES[c.a], c.c, format!("{e:x}"), txt);
            }
            if c.b == S_TT {
                ensure!(lib!(format!("{e:X}")) == txt, "{{:X}} of {} count {} = {:?}, want {:?}", SCALE_NAMES[c.a], c.c, format!("{e:X}"), txt);
            }
        }
    }
    // with_time_from / with_hms_from / with_hms_strict_from take the time of day of another epoch "converted to the
    // correct time scale" (their documentation); asserted for counts on or after the reference epoch, where the time
    // of day of a count is unambiguous
    {
        let other = lib!(r + d); // reads want + d in scale b, c.c + d in scale a
        let oa = c.c + c.d;
        if c.c >= 0 && oa >= 0 {
            let day0 = c.c.div_euclid(NS_D) * NS_D;
            let wt = lib!(e.with_time_from(other));
            ensure!(wt.time_scale == SCALES[c.a] && count(wt.duration) == day0 + oa.rem_euclid(NS_D), "with_time_from: {} count {} with the time of {} count {} gives {}, want {}", SCALE_NAMES[c.a], c.c, SCALE_NAMES[c.b], want + c.d, count(wt.duration), day0 + oa.rem_euclid(NS_D));
            let hms = oa.rem_euclid(NS_D) / NS_S * NS_S;
            let wh = lib!(e.with_hms_from(other));
            ensure!(wh.time_scale == SCALES[c.a] && count(wh.duration) == day0 + hms + c.c.rem_euclid(NS_S), "with_hms_from gives {}, want {}", count(wh.duration), day0 + hms + c.c.rem_euclid(NS_S));
            let ws = lib!(e.with_hms_strict_from(other));
            ensure!(ws.time_scale == SCALES[c.a] && count(ws.duration) == day0 + hms, "with_hms_strict_from gives {}, want {}", count(ws.duration), day0 + hms);
        }
    }
    // accessor and constructor families
    let acc = lib!(accessor(&e, c.b));
    ensure!(count(acc) == want, "to_*_duration accessor for {} gives {}, want {}", SCALE_NAMES[c.b], count(acc), want);
    let dits = lib!(e.to_duration_in_time_scale(SCALES[c.b]));
    ensure!(count(dits) == want, "to_duration_in_time_scale gives {}, want {}", count(dits), want);
    let built = lib!(constructor(mk(c.c), c.a));
    ensure!(built.time_scale == SCALES[c.a] && count(built.duration) == c.c, "from_*_duration constructor wrong for {}", SCALE_NAMES[c.a]);
    // nanosecond counters of the GNSS scales: the same count when it is in [0, one century), an error otherwise
    let ctr = match c.b {
        S_GPST => Some(lib!(e.to_gpst_nanoseconds())),
        S_QZSST => Some(lib!(e.to_qzsst_nanoseconds())),
        S_GST => Some(lib!(e.to_gst_nanoseconds())),
        S_BDT => Some(lib!(e.to_bdt_nanoseconds())),
        _ => None,
    };
    if let Some(r) = ctr {
        if want >= 0 && want < NPC {
            ensure!(matches!(r, Ok(v) if v as i128 == want), "to_*_nanoseconds for {} gives {:?}, want Ok({})", SCALE_NAMES[c.b], r, want);
        } else {
            ensure!(r.is_err(), "to_*_nanoseconds for {} gives {:?} for count {} (negative or beyond one century), want an error", SCALE_NAMES[c.b], r, want);
        }
    }
    if c.b == S_TT && inr(want + 2_415_021 * NS_D) && inr(want - 3_155_716_800 * NS_S) {
        // Duration-valued TT views: exact shifts of the TT count
        let jd = lib!(e.to_jde_tt_duration());
        ensure!(count(jd) == want + 2_415_020 * NS_D + NS_D / 2, "to_jde_tt_duration = {}, want TT count + 2 415 020.5 d = {}", count(jd), want + 2_415_020 * NS_D + NS_D / 2);
        let mjd = lib!(e.to_mjd_tt_duration());
        ensure!(count(mjd) == want + 15_020 * NS_D, "to_mjd_tt_duration = {}, want TT count + 15 020 d", count(mjd));
        let j2k = lib!(e.to_tt_since_j2k());
        ensure!(count(j2k) == want - 3_155_716_800 * NS_S, "to_tt_since_j2k = {}", count(j2k));
    }
    // integer nanosecond constructors of the GNSS scales: count n in the scale they name, for every u64
    if c.c >= 0 && c.c <= u64::MAX as i128 {
        let n = c.c as u64;
        let built = match c.a {
            S_GPST => Some(lib!(Epoch::from_gpst_nanoseconds(n))),
            S_QZSST => Some(lib!(Epoch::from_qzsst_nanoseconds(n))),
            S_GST => Some(lib!(Epoch::from_gst_nanoseconds(n))),
            S_BDT => Some(lib!(Epoch::from_bdt_nanoseconds(n))),
            _ => None,
        };
        if let Some(b) = built {
            ensure!(b.time_scale == SCALES[c.a] && count(b.duration) == c.c && canonical(b.duration), "from_*_nanoseconds({}) for {} has count {} in {:?}", n, SCALE_NAMES[c.a], count(b.duration), b.time_scale);
        }
    }
    if c.a == S_TAI {
        // from_tai_parts with the canonical pair and with an un-normalised one (k centuries moved into the nanosecond field)
        let (cc, nn) = mk(c.c).to_parts();
        for k in [0i128, c.d.rem_euclid(5) + 1] {
            let (c2, n2) = (cc as i128 - k, nn as i128 + k * NPC);
            if c2 < i16::MIN as i128 || n2 > u64::MAX as i128 {
                continue;
            }
            let b = lib!(Epoch::from_tai_parts(c2 as i16, n2 as u64));
            ensure!(b.time_scale == SCALES[S_TAI] && count(b.duration) == c.c && canonical(b.duration), "from_tai_parts({}, {}) gives {:?} in {:?}, want the canonical form of count {}", c2, n2, b.duration.to_parts(), b.time_scale, c.c);
        }
    }
    // float-valued accessors of the target scale: the same count in seconds and days, to float precision
    {
        let (sec, day): (f64, f64) = match c.b {
            S_TAI => (lib!(e.to_tai_seconds()), lib!(e.to_tai_days())),
            S_TT => (lib!(e.to_tt_seconds()), lib!(e.to_tt_days())),
            S_GPST => (lib!(e.to_gpst_seconds()), lib!(e.to_gpst_days())),
            S_QZSST => (lib!(e.to_qzsst_seconds()), lib!(e.to_qzsst_days())),
            S_GST => (lib!(e.to_gst_seconds()), lib!(e.to_gst_days())),
            _ => (lib!(e.to_bdt_seconds()), lib!(e.to_bdt_days())),
        };
        if let Err(m) = super::c17::check_float("seconds accessor", sec, want, NS_S) {
            return Verdict::Fail(format!("{} -> {}: {}", SCALE_NAMES[c.a], SCALE_NAMES[c.b], m));
        }
        if let Err(m) = super::c17::check_float("days accessor", day, want, NS_D) {
            return Verdict::Fail(format!("{} -> {}: {}", SCALE_NAMES[c.a], SCALE_NAMES[c.b], m));
        }
    }
    if c.b == S_TAI {
        let j = lib!(e.to_duration_since_j1900());
        ensure!(count(j) == want, "to_duration_since_j1900 {} want {}", count(j), want);
        ensure!(lib!(e.to_tai_parts()) == mk(want).to_parts(), "to_tai_parts wrong");
    }
    let class = if c.a == c.b {
        "same-scale"
    } else if c.c < 0 || want < 0 {
        "negative-count"
    } else if c.c.div_euclid(NPC) != want.div_euclid(NPC) {
        "century-field-differs"
    } else {
        "plain"
    };
    Verdict::Pass(class, class == "negative-count" || class == "century-field-differs")
}

// ---------------------------------------------------------------- constants and reference epochs (enumerated)
#[derive(Clone, Debug, Serialize, Deserialize)]
pub struct ConstCase {
    pub k: usize,
}

const N_CONST: usize = 40;

fn const_enum(_t: Tier, shard: usize, sink: &mut dyn FnMut(ConstCase) -> bool) {
    for k in 0..N_CONST {
        if k % SHARDS == shard && !sink(ConstCase { k }) {
            return;
        }
    }
}

pub fn const_oracle(c: &ConstCase) -> Verdict {
    use hifitime::*;
    let gps = zero_tai_ns(S_GPST);
    let gst = zero_tai_ns(S_GST);
    let bdt = zero_tai_ns(S_BDT);
    let ok = |name: &str, got: i128, want: i128| -> Result<(), String> {
        if got == want { Ok(()) } else { Err(format!("{name}: library {got}, statement-derived {want}")) }
    };
    let r = match c.k {
        0 => ok("SECONDS_GPS_TAI_OFFSET", (SECONDS_GPS_TAI_OFFSET * 1e9) as i128, gps),
        1 => ok("SECONDS_GPS_TAI_OFFSET_I64", SECONDS_GPS_TAI_OFFSET_I64 as i128 * NS_S, gps),
        2 => ok("DAYS_GPS_TAI_OFFSET (to ns)", (DAYS_GPS_TAI_OFFSET * 86400.0 * 1e9).round() as i128, gps),
        3 => ok("SECONDS_GST_TAI_OFFSET", (SECONDS_GST_TAI_OFFSET * 1e9) as i128, gst),
        4 => ok("SECONDS_GST_TAI_OFFSET_I64", SECONDS_GST_TAI_OFFSET_I64 as i128 * NS_S, gst),
        5 => ok("SECONDS_BDT_TAI_OFFSET", (SECONDS_BDT_TAI_OFFSET * 1e9) as i128, bdt),
        6 => ok("SECONDS_BDT_TAI_OFFSET_I64", SECONDS_BDT_TAI_OFFSET_I64 as i128 * NS_S, bdt),
        7 => ok("GPST_REF_EPOCH", count(GPST_REF_EPOCH.duration), gps).and_then(|_| if GPST_REF_EPOCH.time_scale == TimeScale::TAI { Ok(()) } else { Err("GPST_REF_EPOCH not in TAI".into()) }),
        8 => ok("QZSST_REF_EPOCH", count(QZSST_REF_EPOCH.duration), gps),
        9 => ok("GST_REF_EPOCH", count(GST_REF_EPOCH.duration), gst),
        10 => ok("BDT_REF_EPOCH", count(BDT_REF_EPOCH.duration), bdt),
        11 => ok("J1900_REF_EPOCH", count(J1900_REF_EPOCH.duration), 12 * NS_H),
        12 => ok("J2000_REF_EPOCH", count(J2000_REF_EPOCH.duration), NPC + 12 * NS_H),
        13 => ok("UNIX_REF_EPOCH", count(UNIX_REF_EPOCH.duration), days_1900(1970, 1, 1) as i128 * NS_D),
        14 => ok("ET_EPOCH_S", ET_EPOCH_S as i128 * NS_S, j2000_ns()),
        15..=23 => {
            // reference_epoch() of each scale: zero count in that scale; for uniform scales its TAI count is the model's
            let s = c.k - 15;
            let e = SCALES[s].reference_epoch();
            let mut res = ok("reference_epoch count", count(e.duration), 0);
            if e.time_scale != SCALES[s] {
                res = Err(format!("reference_epoch of {} has scale {:?}", SCALE_NAMES[s], e.time_scale));
            }
            if res.is_ok() && is_uniform(s) {
                match guard(|| e.to_tai_duration()) {
                    Ok(d) => res = ok("reference_epoch -> TAI", count(d), zero_tai_ns(s)),
                    Err(m) => res = Err(m),
                }
            }
            if res.is_ok() {
                // prints as the reference date in the scale itself
                let g = greg_of_ns1900(greg_offset_ns(s));
                let want = format!("{} {}", render_iso(&g), SCALE_NAMES[s]);
                match guard(|| format!("{e}")) {
                    Ok(txt) => {
                        if txt != want {
                            res = Err(format!("reference_epoch of {} prints {:?}, want {:?}", SCALE_NAMES[s], txt, want));
                        }
                    }
                    Err(m) => res = Err(m),
                }
            }
            res
        }
        24..=29 => {
            // TT - TAI = 32.184 s etc. at the zero epochs, through from_duration(ZERO)
            let s = UNIFORM[c.k - 24];
            let e = Epoch::from_duration(Duration::ZERO, SCALES[s]);
            match guard(|| e.to_tai_duration()) {
                Ok(d) => ok("zero epoch -> TAI", count(d), zero_tai_ns(s)),
                Err(m) => Err(m),
            }
        }
        30 => ok("MJD_J1900 days", (MJD_J1900 * 1e6) as i128, 15_020_000_000),
        31 => ok("MJD_OFFSET days", (MJD_OFFSET * 10.0) as i128, 24_000_005),
        32 => ok("JD_J1900", (JD_J1900 * 10.0) as i128, 24_150_200),
        33 => ok("JD_J2000", (JD_J2000 * 10.0) as i128, 24_515_450),
        34 => ok("MJD_J2000", (MJD_J2000 * 10.0) as i128, 515_445),
        35 => ok("SECONDS_PER_CENTURY", (SECONDS_PER_CENTURY) as i128 * NS_S, NPC),
        36 => ok("NANOSECONDS_PER_CENTURY", NANOSECONDS_PER_CENTURY as i128, NPC),
        37 => ok("SECONDS_PER_DAY", SECONDS_PER_DAY as i128 * NS_S, NS_D),
        38 => ok("DAYS_PER_CENTURY", DAYS_PER_CENTURY as i128 * NS_D, NPC),
        _ => ok("NANOSECONDS_PER_DAY", NANOSECONDS_PER_DAY as i128, NS_D),
    };
    match r {
        Ok(()) => Verdict::Pass("constant", true),
        Err(m) => Verdict::Fail(m),
    }
}

pub fn subs() -> Vec<Box<dyn DynSub>> {
    vec![
        sub(Sub { name: "c05.convert", source: Source::Gen(conv_strategy, 6_000_000, 72_000_000), oracle: conv_oracle, known: no_known, hang_is_violation: false }),
        sub(Sub { name: "c05.constants", source: Source::Enum(const_enum, |_| true), oracle: const_oracle, known: no_known, hang_is_violation: false }),
        crate::props::chain::c05_chain(),
        crate::props::fuzzsub::fc05(),
    ]
}

#[allow(dead_code)]
fn _unused(_: TimeScale) {}

//! `<prop>.fuzz_bytes` sub-checks: replay the committed libFuzzer seeds and saved artifacts of a target
//! through the same byte decoding and oracle the fuzz target uses (quick tier: seconds).
use crate::engine::*;
use crate::fuzzentry::TARGETS;
use serde::{Deserialize, Serialize};

#[derive(Clone, Debug, Serialize, Deserialize)]
pub struct Bytes {
    pub target: String,
    pub hex: String,
}

pub fn to_hex(b: &[u8]) -> String {
    b.iter().map(|x| format!("{:02x}", x)).collect()
}

pub fn from_hex(h: &str) -> Vec<u8> {
    (0..h.len() / 2).filter_map(|i| u8::from_str_radix(&h[2 * i..2 * i + 2], 16).ok()).collect()
}

fn files_of(target: &str) -> Vec<std::path::PathBuf> {
    let root = verif_root();
    let mut v = vec![];
    for dir in [format!("{root}/harness/fuzz/seeds/{target}"), format!("{root}/regressions/fuzz/{target}")] {
        if let Ok(rd) = std::fs::read_dir(&dir) {
            let mut f: Vec<_> = rd.filter_map(|e| e.ok()).map(|e| e.path()).filter(|p| p.is_file()).collect();
            f.sort();
            v.extend(f);
        }
    }
    v
}

fn enumerate(target: &str, shard: usize, sink: &mut dyn FnMut(Bytes) -> bool) {
    for (i, p) in files_of(target).into_iter().enumerate() {
        if i % SHARDS != shard {
            continue;
        }
        if let Ok(b) = std::fs::read(&p) {
            if !sink(Bytes { target: target.to_string(), hex: to_hex(&b) }) {
                return;
            }
        }
    }
}

fn oracle(c: &Bytes) -> Verdict {
    let Some((_, _, f)) = TARGETS.iter().find(|t| t.0 == c.target) else {
        return Verdict::Fail(format!("unknown fuzz target {}", c.target));
    };
    let data = from_hex(&c.hex);
    match guard(|| f(&data)) {
        Ok(Ok(())) => Verdict::Pass("seed-or-artifact", true),
        Ok(Err(m)) => Verdict::Fail(format!("fuzz input {:?}: {}", String::from_utf8_lossy(&data), m)),
        Err(m) => Verdict::Fail(format!("fuzz input {:?}: {}", String::from_utf8_lossy(&data), m)),
    }
}

macro_rules! fuzz_sub {
    ($fname:ident, $en:ident, $name:expr, $target:expr) => {
        fn $en(_t: Tier, shard: usize, sink: &mut dyn FnMut(Bytes) -> bool) {
            enumerate($target, shard, sink)
        }
        pub fn $fname() -> Box<dyn DynSub> {
            sub(Sub { name: $name, source: Source::Enum($en, |_| false), oracle, known: no_known, hang_is_violation: true })
        }
    };
}

fuzz_sub!(c13_fuzz, en13, "c13.fuzz_bytes", "parse_any");
fuzz_sub!(c10_fuzz, en10, "c10.fuzz_bytes", "iso_roundtrip");
fuzz_sub!(c11_fuzz, en11, "c11.fuzz_bytes", "duration_text");
fuzz_sub!(c19_fuzz, en19, "c19.fuzz_bytes", "format_pair");

// `<prop>.fuzz_cases`: seeds, regressions and artifacts of the structured target `prop_case` (the bytes are the
// random stream of one of the property's strategies)
macro_rules! fuzz_cases_sub {
    ($fname:ident, $en:ident, $name:expr, $target:expr) => {
        fn $en(_t: Tier, shard: usize, sink: &mut dyn FnMut(Bytes) -> bool) {
            enumerate($target, shard, sink)
        }
        pub fn $fname() -> Box<dyn DynSub> {
            sub(Sub { name: $name, source: Source::Enum($en, |_| false), oracle, known: no_known, hang_is_violation: false })
        }
    };
}
fuzz_cases_sub!(fc01, ec01, "c01.fuzz_cases", "prop_case_C01");
fuzz_cases_sub!(fc02, ec02, "c02.fuzz_cases", "prop_case_C02");
fuzz_cases_sub!(fc03, ec03, "c03.fuzz_cases", "prop_case_C03");
fuzz_cases_sub!(fc04, ec04, "c04.fuzz_cases", "prop_case_C04");
fuzz_cases_sub!(fc05, ec05, "c05.fuzz_cases", "prop_case_C05");
fuzz_cases_sub!(fc06, ec06, "c06.fuzz_cases", "prop_case_C06");
fuzz_cases_sub!(fc07, ec07, "c07.fuzz_cases", "prop_case_C07");
fuzz_cases_sub!(fc08, ec08, "c08.fuzz_cases", "prop_case_C08");
fuzz_cases_sub!(fc09, ec09, "c09.fuzz_cases", "prop_case_C09");
fuzz_cases_sub!(fc10, ec10, "c10.fuzz_cases", "prop_case_C10");
fuzz_cases_sub!(fc11, ec11, "c11.fuzz_cases", "prop_case_C11");
fuzz_cases_sub!(fc12, ec12, "c12.fuzz_cases", "prop_case_C12");
fuzz_cases_sub!(fc13, ec13, "c13.fuzz_cases", "prop_case_C13");
fuzz_cases_sub!(fc14, ec14, "c14.fuzz_cases", "prop_case_C14");
fuzz_cases_sub!(fc15, ec15, "c15.fuzz_cases", "prop_case_C15");
fuzz_cases_sub!(fc16, ec16, "c16.fuzz_cases", "prop_case_C16");
fuzz_cases_sub!(fc17, ec17, "c17.fuzz_cases", "prop_case_C17");
fuzz_cases_sub!(fc18, ec18, "c18.fuzz_cases", "prop_case_C18");
fuzz_cases_sub!(fc19, ec19, "c19.fuzz_cases", "prop_case_C19");
fuzz_cases_sub!(fc20, ec20, "c20.fuzz_cases", "prop_case_C20");

//! `<prop>.fuzz_bytes` sub-checks: replay the committed libFuzzer seeds and saved artifacts of a target
//! through the same byte decoding and oracle the fuzz target uses (quick tier: seconds).
use crate::engine::*;
use crate::fuzzentry::TARGETS;
use serde::{Deserialize, Serialize};

#[derive(Clone, Debug, Serialize, Deserialize)]
pub struct Bytes {
    pub target: String,
    pub hex: String,
}

pub fn to_hex(b: &[u8]) -> String {
    b.iter().map(|x| format!("{:02x}", x)).collect()
}

pub fn from_hex(h: &str) -> Vec<u8> {
    (0..h.len() / 2).filter_map(|i| u8::from_str_radix(&h[2 * i..2 * i + 2], 16).ok()).collect()
}

fn files_of(target: &str) -> Vec<std::path::PathBuf> {
    let root = verif_root();
    let mut v = vec![];
    for dir in [format!("{root}/harness/fuzz/seeds/{target}"), format!("{root}/regressions/fuzz/{target}")] {
        if let Ok(rd) = std::fs::read_dir(&dir) {
            let mut f: Vec<_> = rd.filter_map(|e| e.ok()).map(|e| e.path()).filter(|p| p.is_file()).collect();
            f.sort();
            v.extend(f);
        }
    }
    v
}

fn enumerate(target: &str, shard: usize, sink: &mut dyn FnMut(Bytes) -> bool) {
    for (i, p) in files_of(target).into_iter().enumerate() {
        if i % SHARDS != shard {
            continue;
        }
        if let Ok(b) = std::fs::read(&p) {
            if !sink(Bytes { target: target.to_string(), hex: to_hex(&b) }) {
                return;
            }
        }
    }
}

fn oracle(c: &Bytes) -> Verdict {
    let Some((_, _, f)) = TARGETS.iter().find(|t| t.0 == c.target) else {
        return Verdict::Fail(format!("unknown fuzz target {}", c.target));
    };
    let data = from_hex(&c.hex);
    match guard(|| f(&data)) {
        Ok(Ok(())) => Verdict::Pass("seed-or-artifact", true),
        Ok(Err(m)) => Verdict::Fail(format!("fuzz input {:?}: {}", String::from_utf8_lossy(&data), m)),
        Err(m) => Verdict::Fail(format!("fuzz input {:?}: {}", String::from_utf8_lossy(&data), m)),
    }
}

macro_rules! fuzz_sub {
    ($fname:ident, $en:ident, $name:expr, $target:expr) => {
        fn $en(_t: Tier, shard: usize, sink: &mut dyn FnMut(Bytes) -> bool) {
            enumerate($target, shard, sink)
        }
        pub fn $fname() -> Box<dyn DynSub> {
            sub(Sub { name: $name, source: Source::Enum($en, |_| false), oracle, known: no_known, hang_is_violation: true })
        }
    };
}

fuzz_sub!(c13_fuzz, en13, "c13.fuzz_bytes", "parse_any");
fuzz_sub!(c10_fuzz, en10, "c10.fuzz_bytes", "iso_roundtrip");
fuzz_sub!(c11_fuzz, en11, "c11.fuzz_bytes", "duration_text");
fuzz_sub!(c19_fuzz, en19, "c19.fuzz_bytes", "format_pair");

//! C18 — Duration float interop: rounded out, truncated to ns in, never panics
use crate::engine::*;
use crate::gen::*;
use crate::model::*;
use crate::{ensure, lib};
use hifitime::{Duration, TimeUnits};
use proptest::prelude::*;
use serde::{Deserialize, Serialize};

pub const RULE: &str = "out: generated durations over the whole range (and ordered adjacent / century-boundary pairs) read as seconds and as each of the nine units, compared with the exact rational count/unit in double-double arithmetic (tolerance 4 ulp of the value, or of one second's worth for smaller values); in: generated finite f64 (raw bit patterns incl. subnormals, integers +- 1 ulp, decimal fractions, powers of two and ten, values at the i64/i128/saturation thresholds) x nine units through every constructor form, compared with clamp(trunc(x*unit)) where * is one IEEE multiplication, and with the exact product when that is an integer below 2^53; +-inf and NaN for the no-panic clause; Duration x f64: durations up to 10 000 years x finite f64, compared with the exact product (count x integer significand x 2^e by limb-wise multiplication, truncated) within 1 ns + 4*2^-52 relative; non-trivial = |x*unit| >= 2^53 ns, x within 1 ulp of an integer, subnormal/huge, negative, or (out) |count| > 2^53 ns; distinct = distinct case tuples (hash set, capped: lower bound)";

pub const ASSUMPTIONS: &[&str] = &[
    "'a few units in the last place' is taken as 4 ulp; all nine unit factors are exactly representable in f64, so the real product rounded to nearest is one IEEE multiplication",
    "NaN inputs: only absence of panic/hang is asserted, and only for unit x float (Duration x NaN is outside the statement's finite-input clause)",
    "calls run under a 20 s watchdog; a call that does not return is reported as a hang (termination is part of the statement)",
];

// ---------------------------------------------------------------- out
#[derive(Clone, Debug, Serialize, Deserialize)]
pub struct Out {
    pub a: i128,
    pub gap: i128,
}

fn out_strategy() -> BS<Out> {
    let a = wunion(vec![(4, count_any()), (3, count_human()), (1, (any::<bool>(), 0i128..NS_S).prop_map(|(s, v)| if s { -v } else { v }).boxed())]);
    let gap = prop_oneof![Just(1i128), (1i128..1000), log_mag(70)];
    (a, gap).prop_map(|(a, gap)| Out { a, gap }).boxed()
}

fn unit_secs_q(u: usize) -> (i128, i128) {
    // value in unit = count / UNIT_NS[u]
    (1, UNIT_NS[u])
}

fn out_oracle(c: &Out) -> Verdict {
    let d = mk(c.a);
    let cd = count(d);
    let b = mk(clamp(c.a.saturating_add(c.gap)));
    let cb = count(b);
    // seconds
    let s = lib!(d.to_seconds());
    let err = abs_err_vs_rational(s, cd, NS_S);
    let exact_mag = (cd.abs() as f64) / 1e9;
    let tol = 4.0 * ulp(exact_mag.max(1.0));
    ensure!(err <= tol, "to_seconds of count {} = {:e}: error {:e} > 4 ulp ({:e})", cd, s, err, tol);
    ensure!((cd < 0 && s <= 0.0) || (cd > 0 && s >= 0.0) || (cd == 0 && s == 0.0), "to_seconds of count {} has the wrong sign: {:e}", cd, s);
    let sb = lib!(b.to_seconds());
    ensure!(s <= sb, "to_seconds not monotone: count {} -> {:e}, count {} -> {:e}", cd, s, cb, sb);
    for u in 0..9 {
        let v = lib!(d.to_unit(UNITS[u]));
        let (_, q) = unit_secs_q(u);
        let err = abs_err_vs_rational(v, cd, q);
        let exact_mag = rational_to_f64(cd.abs(), q);
        let one_sec = 1e9 / q as f64;
        let tol = 4.0 * ulp(exact_mag.max(one_sec));
        ensure!(err <= tol, "to_unit({}) of count {} = {:e}: error {:e} > 4 ulp ({:e})", UNIT_NAMES[u], cd, v, err, tol);
        ensure!((cd < 0 && v <= 0.0) || (cd > 0 && v >= 0.0) || (cd == 0 && v == 0.0), "to_unit({}) of count {} has the wrong sign: {:e}", UNIT_NAMES[u], cd, v);
        let vb = lib!(b.to_unit(UNITS[u]));
        ensure!(v <= vb, "to_unit({}) not monotone: count {} -> {:e}, count {} -> {:e}", UNIT_NAMES[u], cd, v, cb, vb);
        // the unit's own value in seconds (one unit converted to floating-point seconds) and its reciprocal
        let us = lib!(UNITS[u].in_seconds());
        ensure!(abs_err_vs_rational(us, UNIT_NS[u], NS_S) <= 4.0 * ulp(us), "Unit::{:?}.in_seconds() = {:e}, want {} ns / 1e9", UNITS[u], us, UNIT_NS[u]);
        let ur = lib!(UNITS[u].from_seconds());
        ensure!(abs_err_vs_rational(ur, NS_S, UNIT_NS[u]) <= 4.0 * ulp(ur), "Unit::{:?}.from_seconds() = {:e}, want 1e9 / {} ns", UNITS[u], ur, UNIT_NS[u]);
    }
    let class = if cd.abs() > (1i128 << 53) { "|count|>2^53" } else if cd < 0 { "negative" } else if cd.abs() < NS_S { "sub-second" } else { "plain" };
    Verdict::Pass(class, class != "plain")
}

// ---------------------------------------------------------------- in
#[derive(Clone, Debug, Serialize, Deserialize)]
pub struct In {
    pub x: Fl,
    pub u: usize,
    /// 0: x*U 1: U*x 2: x.unit() 3: Duration::from_unit(x)
    pub form: u8,
}

fn in_strategy() -> BS<In> {
    let x = wunion(vec![
        (5, f64_any_finite()),
        // thresholds: x*unit near 2^53, 2^63, 2^127, the duration bounds
        (3, (0usize..9, prop::sample::select(vec![9_007_199_254_740_992.0f64, 9.223372036854775807e18, 1.7014118346046923e38, 1.0340794368e23, 3.15576e18, 6.31152e18]), any::<bool>(), -2i64..=2)
            .prop_map(|(u, t, neg, d)| {
                let v = t / UNIT_NS[u] as f64;
                let v = f64::from_bits((v.to_bits() as i64 + d) as u64);
                Fl::of(if neg { -v } else { v })
            })
            .boxed()),
        (1, prop::sample::select(vec![f64::INFINITY, f64::NEG_INFINITY, f64::NAN]).prop_map(Fl::of).boxed()),
    ]);
    (x, 0usize..9, 0u8..4).prop_map(|(x, u, form)| In { x, u, form }).boxed()
}

fn in_oracle(c: &In) -> Verdict {
    let x = c.x.v();
    let u = UNITS[c.u];
    let d: Duration = match c.form {
        0 => lib!(x * u),
        1 => lib!(u * x),
        2 => match c.u {
            0 => lib!(x.nanoseconds()),
            1 => lib!(x.microseconds()),
            2 => lib!(x.milliseconds()),
            3 => lib!(x.seconds()),
            4 => lib!(x.minutes()),
            5 => lib!(x.hours()),
            6 => lib!(x.days()),
            7 => lib!(x.weeks()),
            _ => lib!(x.centuries()),
        },
        _ => match c.u {
            0 => lib!(Duration::from_nanoseconds(x)),
            1 => lib!(Duration::from_microseconds(x)),
            2 => lib!(Duration::from_milliseconds(x)),
            3 => lib!(Duration::from_seconds(x)),
            5 => lib!(Duration::from_hours(x)),
            6 => lib!(Duration::from_days(x)),
            _ => lib!(x * u),
        },
    };
    ensure!(canonical(d), "non-canonical result {:?}", d.to_parts());
    if x.is_nan() {
        return Verdict::Pass("nan-no-panic", true);
    }
    let factor = UNIT_NS[c.u] as f64;
    let p = x * factor; // one IEEE multiplication: the real product rounded to the nearest double
    let want = if p == f64::INFINITY {
        DMAX
    } else if p == f64::NEG_INFINITY {
        DMIN
    } else {
        clamp(f64_trunc_i128(p))
    };
    ensure!(count(d) == want, "{:e} x {} (form {}): got count {}, want clamp(trunc(fl(x*unit))) = {}", x, UNIT_NAMES[c.u], c.form, count(d), want);
    // independent consequence: an integer product below 2^53 is exact
    if x.is_finite() {
        let (m, e) = f64_parts(x);
        let prod = m as i128 * UNIT_NS[c.u];
        let exact_int: Option<i128> = if e >= 0 {
            if e < 20 { Some(prod << e) } else { None }
        } else if (-e) < 127 && prod & ((1i128 << (-e)) - 1) == 0 {
            Some(prod >> (-e))
        } else {
            None
        };
        if let Some(v) = exact_int {
            if v.abs() < (1i128 << 53) {
                ensure!(count(d) == v, "{:e} x {}: product is the integer {} (< 2^53) but the result is {}", x, UNIT_NAMES[c.u], v, count(d));
            }
        }
    }
    let class = if !x.is_finite() {
        "infinite"
    } else if want == DMAX || want == DMIN {
        "saturates"
    } else if p.abs() >= 9_007_199_254_740_992.0 {
        "|product|>=2^53"
    } else if x != 0.0 && x.abs() < f64::MIN_POSITIVE {
        "subnormal"
    } else if x < 0.0 {
        "negative"
    } else if p.fract() != 0.0 {
        "fractional-ns"
    } else {
        "plain"
    };
    Verdict::Pass(class, class != "plain")
}

// ---------------------------------------------------------------- compose_f64
#[derive(Clone, Debug, Serialize, Deserialize)]
pub struct ComposeF {
    pub sign: i8,
    pub f: [Fl; 7],
}

fn composef_strategy() -> BS<ComposeF> {
    let field = prop_oneof![
        3 => (0u32..100_000, prop::sample::select(vec![1.0f64, 0.5, 0.1, 0.001])).prop_map(|(k, f)| Fl::of(k as f64 * f)),
        1 => Just(Fl::of(0.0)),
        1 => (0u64..1u64 << 40).prop_map(|k| Fl::of(k as f64)),
        1 => (0u64..10_000_000_000u64, 0i32..10).prop_map(|(m, e)| Fl::of(format!("{}e-{}", m, e).parse::<f64>().unwrap())),
    ];
    (any::<i8>(), proptest::array::uniform7(field)).prop_map(|(sign, f)| ComposeF { sign, f }).boxed()
}

fn composef_oracle(c: &ComposeF) -> Verdict {
    let w = [NS_D, NS_H, NS_MIN, NS_S, 1_000_000, 1_000, 1];
    let mut sum = 0i128;
    for i in 0..7 {
        let p = c.f[i].v() * w[i] as f64;
        sum += f64_trunc_i128(p);
    }
    if sum >= DMAX {
        return Verdict::Skip("sum not representable");
    }
    let f: Vec<f64> = c.f.iter().map(|x| x.v()).collect();
    let d = lib!(Duration::compose_f64(c.sign, f[0], f[1], f[2], f[3], f[4], f[5], f[6]));
    let want = if c.sign < 0 { -sum } else { sum };
    ensure!(count(d) == want, "compose_f64({}, {:?}) = {}, want {}", c.sign, f, count(d), want);
    Verdict::Pass(if c.sign < 0 { "negative" } else { "positive" }, true)
}

// ---------------------------------------------------------------- Duration x f64
#[derive(Clone, Debug, Serialize, Deserialize)]
pub struct MulF {
    pub d: i128,
    pub q: Fl,
    /// 0: d*q 1: q*d
    pub form: u8,
}

fn mulf_strategy() -> BS<MulF> {
    let q = wunion(vec![
        (4, f64_any_finite()),
        (3, (-1000i64..=1000, prop::sample::select(vec![1.0f64, 0.5, 0.25, 0.1, 0.01, 0.001, 1e-9])).prop_map(|(k, f)| Fl::of(k as f64 * f)).boxed()),
        (2, (any::<bool>(), 0u64..(1u64 << 53)).prop_map(|(s, m)| { let v = m as f64 / (1u64 << 53) as f64; Fl::of(if s { -v } else { v }) }).boxed()),
        (2, (any::<bool>(), -80i32..10, 0u64..(1u64 << 52)).prop_map(|(s, e, m)| { let v = (1.0 + m as f64 / (1u64 << 52) as f64) * 2f64.powi(e); Fl::of(if s { -v } else { v }) }).boxed()),
        // exact powers of two (and one ulp either side) from 2^-100 to 2^100: halving, integer-width factors (2^63, 2^64)
        (2, (any::<bool>(), -100i32..=100, -1i64..=1).prop_map(|(s, e, d)| { let v = f64::from_bits((2f64.powi(e).to_bits() as i64 + d) as u64); Fl::of(if s { -v } else { v }) }).boxed()),
    ]);
    // durations: the human range, plus small odd counts of either sign (where truncation toward zero shows)
    let d = prop_oneof![6 => count_human(), 1 => (-2_000_000i128..=2_000_000), 1 => pow2_near(68, 3)];
    (d, q, 0u8..2).prop_map(|(d, q, form)| MulF { d, q, form }).boxed()
}

fn mulf_oracle(c: &MulF) -> Verdict {
    let q = c.q.v();
    let d = mk(c.d);
    let cd = count(d);
    let r = if c.form == 0 { lib!(d * q) } else { lib!(q * d) };
    ensure!(canonical(r), "non-canonical result");
    let want = match mul_f64_trunc(cd, q) {
        Some(v) => v,
        None => {
            // certainly beyond the representable range
            let pos = (cd > 0) == (q > 0.0);
            let bound = if pos { DMAX } else { DMIN };
            ensure!(count(r) == bound, "{} x {:e} is far beyond the range, got {} want the bound {}", cd, q, count(r), bound);
            return Verdict::Pass("saturates", true);
        }
    };
    let wantc = clamp(want);
    let tol = 2 + (want.abs() as f64 * 4.0 * 2f64.powi(-52)) as i128;
    if want > DMAX + tol || want < DMIN - tol {
        ensure!(count(r) == wantc, "{} x {:e}: got {}, want the bound {}", cd, q, count(r), wantc);
        return Verdict::Pass("saturates", true);
    }
    ensure!((count(r) - wantc).abs() <= tol, "{} ns x {:e}: got {}, exact product {} (difference {} > 1 ns + float rounding = {})", cd, q, count(r), want, count(r) - wantc, tol);
    // "truncated toward zero": the result never lies farther from zero than the real product (float rounding apart)
    let rounding = (want.abs() as f64 * 4.0 * 2f64.powi(-52)) as i128;
    ensure!(count(r).abs() <= wantc.abs() + rounding, "{} ns x {:e}: got {}, which is farther from zero than the real product (whole part {}): not truncated toward zero", cd, q, count(r), want);
    let class = if q != 0.0 && q.abs() < 2.3e-16 {
        "|q|<epsilon"
    } else if q < 0.0 {
        "negative-factor"
    } else if cd.abs() > (1i128 << 53) {
        "|count|>2^53"
    } else if q.fract() != 0.0 {
        "fractional-factor"
    } else {
        "plain"
    };
    Verdict::Pass(class, class != "plain")
}

pub fn subs() -> Vec<Box<dyn DynSub>> {
    vec![
        sub(Sub { name: "c18.out", source: Source::Gen(out_strategy, 2_400_000, 20_000_000), oracle: out_oracle, known: no_known, hang_is_violation: false }),
        sub(Sub { name: "c18.in", source: Source::Gen(in_strategy, 4_800_000, 40_000_000), oracle: in_oracle, known: no_known, hang_is_violation: true }),
        sub(Sub { name: "c18.compose_f64", source: Source::Gen(composef_strategy, 800_000, 5_000_000), oracle: composef_oracle, known: no_known, hang_is_violation: true }),
        sub(Sub { name: "c18.duration_x_f64", source: Source::Gen(mulf_strategy, 1_600_000, 10_000_000), oracle: mulf_oracle, known: no_known, hang_is_violation: true }),
        crate::props::fuzzsub::fc18(),
    ]
}

//! C14 — floor / ceil / round snap to multiples of the step, on the correct side
use crate::engine::*;
use crate::gen::*;
use crate::model::*;
use crate::props::c01::reads_bad_total_ns;
use crate::{ensure, lib};
use hifitime::{Duration, Epoch};
use proptest::prelude::*;
use serde::{Deserialize, Serialize};

pub const RULE: &str = "generated (duration or epoch count, step) with steps of either sign from 1 ns to centuries and zero, half of the pairs correlated (d = k*|s| + r, r in {0, +-1, |s|/2, |s|/2 +- 1}); oracle = Euclidean division in i128 (floor = floor(d/|s|)*|s|, ceil = floor+|s|, round = nearer, ties up), clamped, plus the statement's consequences (floor <= e < ceil, multiples of the step from the reference); non-trivial = d < 0, s < 0, exact multiple, exact tie, clamped result, or an operand with century field <= -2; distinct = distinct case tuples (hash set, capped: lower bound)";

pub const ASSUMPTIONS: &[&str] = &[
    "where the exact floor or the exact ceil lies outside [MIN, MAX] the statement does not fix whether ceil/round start from the exact or from the saturated neighbour: both answers are accepted there",
    "failing cases whose operands are affected by the open finding KF-total-ns-sign (century field <= -2 with non-zero nanoseconds, for d, the step, |step| or the floored value) are excluded and counted only when all three answers are exactly what the finding predicts (floor/ceil/round recomputed with total_nanoseconds() as the finding computes it); any other answer there is a violation",
];

#[derive(Clone, Debug, Serialize, Deserialize)]
pub struct Fcr {
    pub d: i128,
    pub s: i128,
    /// None: on a Duration; Some(scale): on an Epoch of that scale
    pub scale: Option<usize>,
}

fn step_any() -> BS<i128> {
    wunion(vec![
        (4, (0usize..9, 1i128..=100, any::<bool>()).prop_map(|(u, k, neg)| { let v = k * UNIT_NS[u]; if neg { -v } else { v } }).boxed()),
        (3, (any::<bool>(), log_mag(76)).prop_map(|(s, m)| if s { -m } else { m }).boxed()),
        (1, Just(0i128).boxed()),
        (1, prop::sample::select(vec![1i128, -1, 2, -2, 3, NPC, -NPC, DMAX, DMIN, DMIN + 1, DMAX - 1, 10 * NS_S, -10 * NS_S]).boxed()),
        (1, count_any()),
    ])
}

fn fcr_strategy() -> BS<Fcr> {
    let free = (count_any(), step_any()).boxed();
    let human = (count_human(), step_any()).boxed();
    let correlated = (step_any(), prop_oneof![(-1000i128..=1000), (any::<bool>(), log_mag(60)).prop_map(|(s, m)| if s { -m } else { m })], 0u8..6)
        .prop_map(|(s, k, r)| {
            let st = s.abs();
            let r = match r {
                0 => 0,
                1 => 1,
                2 => -1,
                3 => st / 2,
                4 => st / 2 + 1,
                _ => st / 2 - 1,
            };
            (clamp(k.saturating_mul(st).saturating_add(r)), s)
        })
        .boxed();
    let scale = prop_oneof![2 => Just(None), 3 => (0usize..9).prop_map(Some)];
    (wunion(vec![(2, free), (3, human), (4, correlated)]), scale)
        .prop_map(|((d, s), scale)| Fcr { d, s, scale })
        .boxed()
}

struct Model {
    floor: i128,
    ceil: i128,
    round: i128,
    /// exact (unclamped) floor and ceil
    xfloor: i128,
    xceil: i128,
}

fn model(d: i128, s: i128) -> Option<Model> {
    if s == 0 {
        return None;
    }
    let st = s.abs();
    let xfloor = d.div_euclid(st) * st;
    let xceil = xfloor + st;
    let xround = if d - xfloor < xceil - d { xfloor } else { xceil };
    Some(Model { floor: clamp(xfloor), ceil: clamp(xceil), round: clamp(xround), xfloor, xceil })
}

/// floor / ceil / round as the library computes them when total_nanoseconds() answers as the open finding
/// KF-total-ns-sign describes (the rest of the computation being exact)
fn kf_prediction(d: Duration, s: Duration) -> (i128, i128, i128) {
    let step = kf_total_ns(s).abs();
    let floor = if step == 0 { 0 } else { let t = kf_total_ns(d); clamp(t - t.rem_euclid(step)) };
    let sabs = mk(clamp(count(s).abs()));
    let ceil = match kf_total_ns(mk(floor)).checked_add(kf_total_ns(sabs)) {
        Some(t) => clamp(t),
        None => DMAX,
    };
    let cd = count(d);
    let round = if clamp(cd - floor) < clamp(clamp(ceil - cd).abs()) { floor } else { ceil };
    (floor, ceil, round)
}

fn fcr_known(c: &Fcr) -> Option<&'static str> {
    let d = mk(c.d);
    let s = mk(c.s);
    let sabs = mk(c.s.abs());
    let mut bad = reads_bad_total_ns(d) || reads_bad_total_ns(s) || reads_bad_total_ns(sabs);
    if let Some(m) = model(count(d), count(s)) {
        bad |= reads_bad_total_ns(mk(m.floor)) || reads_bad_total_ns(mk(m.ceil));
    }
    let (pf, pc, pr) = kf_prediction(d, s);
    bad |= reads_bad_total_ns(mk(pf));
    if !bad {
        return None;
    }
    // known only if all three answers are exactly what the finding predicts
    let got = match c.scale {
        None => guard(move || (d.floor(s), d.ceil(s), d.round(s))),
        Some(sc) => guard(move || {
            let e = Epoch::from_duration(d, SCALES[sc]);
            (e.floor(s).duration, e.ceil(s).duration, e.round(s).duration)
        }),
    };
    match got {
        Ok((f, ce, r)) if canonical(f) && canonical(ce) && canonical(r) && (count(f), count(ce), count(r)) == (pf, pc, pr) => Some("KF-total-ns-sign"),
        _ => None,
    }
}

fn fcr_oracle(c: &Fcr) -> Verdict {
    let d = mk(c.d);
    let s = mk(c.s);
    let (cd, cs) = (count(d), count(s));
    let (f, ce, r): (Duration, Duration, Duration) = match c.scale {
        None => (lib!(d.floor(s)), lib!(d.ceil(s)), lib!(d.round(s))),
        Some(sc) => {
            let e = Epoch::from_duration(d, SCALES[sc]);
            let (f, ce, r) = (lib!(e.floor(s)), lib!(e.ceil(s)), lib!(e.round(s)));
            ensure!(f.time_scale == SCALES[sc] && ce.time_scale == SCALES[sc] && r.time_scale == SCALES[sc], "floor/ceil/round changed the time scale");
            (f.duration, ce.duration, r.duration)
        }
    };
    ensure!(canonical(f) && canonical(ce) && canonical(r), "non-canonical result");
    let desc = format!("d={} ({:?}) step={} ({:?}) on {}", cd, d.to_parts(), cs, s.to_parts(), c.scale.map(|s| SCALE_NAMES[s]).unwrap_or("Duration"));
    let Some(m) = model(cd, cs) else {
        ensure!(count(f) == 0, "floor with zero step = {} want 0: {}", count(f), desc);
        // ceil / round with a zero step: the statement says a zero step yields zero
        ensure!(count(ce) == 0 && count(r) == 0, "ceil/round with zero step = {}/{} want 0: {}", count(ce), count(r), desc);
        return Verdict::Pass("zero-step", true);
    };
    ensure!(count(f) == m.floor, "floor = {} want {}: {}", count(f), m.floor, desc);
    let in_range = m.xfloor >= DMIN && m.xceil <= DMAX;
    if in_range {
        ensure!(count(ce) == m.ceil, "ceil = {} want {}: {}", count(ce), m.ceil, desc);
        ensure!(count(r) == m.round, "round = {} want {}: {}", count(r), m.round, desc);
        // consequences, independent of the model formula
        ensure!(count(f) <= cd && cd < count(ce), "floor <= d < ceil violated: {} {} {}: {}", count(f), cd, count(ce), desc);
        ensure!(count(f).rem_euclid(cs.abs()) == 0 && count(ce).rem_euclid(cs.abs()) == 0, "not multiples of the step: {}", desc);
    } else {
        // ambiguous start point for ceil/round at the bounds: accept exact-based and saturated-based answers
        let st = cs.abs();
        let alt_ceil = clamp(m.floor.saturating_add(st));
        ensure!(count(ce) == m.ceil || count(ce) == alt_ceil, "ceil = {} want {} or {}: {}", count(ce), m.ceil, alt_ceil, desc);
        let alt_round = { let (fl, cl) = (m.floor, alt_ceil); if cd - fl < (cl - cd).abs() { fl } else { cl } };
        ensure!(count(r) == m.round || count(r) == alt_round || count(r) == m.floor || count(r) == alt_ceil || count(r) == m.ceil, "round = {} want one of {} {}: {}", count(r), m.round, alt_round, desc);
    }
    let tie = cs.abs() % 2 == 0 && cd - m.xfloor == cs.abs() / 2;
    let class = if !in_range {
        "clamped"
    } else if d.to_parts().0 <= -2 || s.to_parts().0 <= -2 {
        "century<=-2"
    } else if tie {
        "tie"
    } else if cd == m.xfloor {
        "exact-multiple"
    } else if cd < 0 && cs < 0 {
        "d<0,s<0"
    } else if cd < 0 {
        "d<0"
    } else if cs < 0 {
        "s<0"
    } else {
        "plain"
    };
    Verdict::Pass(class, class != "plain")
}

// ---------------------------------------------------------------- approx
#[derive(Clone, Debug, Serialize, Deserialize)]
pub struct Approx {
    pub d: i128,
}

fn approx_strategy() -> BS<Approx> {
    count_human().prop_map(|d| Approx { d }).boxed()
}

fn approx_known(c: &Approx) -> Option<&'static str> {
    let d = mk(c.d);
    if !reads_bad_total_ns(d) {
        return None;
    }
    let mag = c.d.abs();
    let unit = [NS_D, NS_H, NS_MIN, NS_S, 1_000_000, 1_000, 1].into_iter().find(|u| mag >= *u).unwrap_or(1);
    let (_, _, pr) = kf_prediction(d, mk(unit));
    match guard(move || d.approx()) {
        Ok(r) if canonical(r) && count(r) == pr => Some("KF-total-ns-sign"),
        _ => None,
    }
}

fn approx_oracle(c: &Approx) -> Verdict {
    let d = mk(c.d);
    let cd = count(d);
    let mag = cd.abs();
    let unit = [NS_D, NS_H, NS_MIN, NS_S, 1_000_000, 1_000, 1].into_iter().find(|u| mag >= *u).unwrap_or(1);
    let m = model(cd, unit).unwrap();
    let got = lib!(d.approx());
    ensure!(count(got) == m.round, "approx of {} = {}, want round to {} ns = {}", cd, count(got), unit, m.round);
    let class = if cd < 0 { "negative" } else if mag > 104 * NS_D { ">104d" } else { "plain" };
    Verdict::Pass(class, class != "plain")
}

pub fn subs() -> Vec<Box<dyn DynSub>> {
    vec![
        sub(Sub { name: "c14.floor_ceil_round", source: Source::Gen(fcr_strategy, 6_000_000, 60_000_000), oracle: fcr_oracle, known: fcr_known, hang_is_violation: false }),
        sub(Sub { name: "c14.approx", source: Source::Gen(approx_strategy, 1_200_000, 10_000_000), oracle: approx_oracle, known: approx_known, hang_is_violation: false }),
        crate::props::fuzzsub::fc14(),
    ]
}

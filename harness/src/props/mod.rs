//! Registry: one module per property.
use crate::engine::DynSub;

pub mod c01;
pub mod c02;
pub mod c03;

pub struct PropMeta {
    pub id: &'static str,
    pub rule: &'static str,
    pub assumptions: &'static [&'static str],
    pub subs: fn() -> Vec<Box<dyn DynSub>>,
}

pub fn all() -> Vec<PropMeta> {
    vec![
        PropMeta { id: "C01", rule: c01::RULE, assumptions: c01::ASSUMPTIONS, subs: c01::subs },
        PropMeta { id: "C02", rule: c02::RULE, assumptions: c02::ASSUMPTIONS, subs: c02::subs },
        PropMeta { id: "C03", rule: c03::RULE, assumptions: c03::ASSUMPTIONS, subs: c03::subs },
    ]
}

pub fn get(id: &str) -> Option<PropMeta> {
    all().into_iter().find(|p| p.id == id)
}

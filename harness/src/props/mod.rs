//! Registry: one module per property.
use crate::engine::DynSub;

pub mod c01;
pub mod c02;
pub mod c03;
pub mod c04;
pub mod c05;
pub mod c06;
pub mod c07;
pub mod c08;
pub mod c09;
pub mod c10;
pub mod c11;
pub mod c12;
pub mod c13;
pub mod c14;
pub mod c15;
pub mod c16;
pub mod c17;
pub mod c18;
pub mod c19;
pub mod c20;
pub mod chain;
pub mod fuzzsub;

pub struct PropMeta {
    pub id: &'static str,
    pub rule: &'static str,
    pub assumptions: &'static [&'static str],
    pub subs: fn() -> Vec<Box<dyn DynSub>>,
}

pub fn all() -> Vec<PropMeta> {
    vec![
        PropMeta { id: "C01", rule: c01::RULE, assumptions: c01::ASSUMPTIONS, subs: c01::subs },
        PropMeta { id: "C02", rule: c02::RULE, assumptions: c02::ASSUMPTIONS, subs: c02::subs },
        PropMeta { id: "C03", rule: c03::RULE, assumptions: c03::ASSUMPTIONS, subs: c03::subs },
        PropMeta { id: "C04", rule: c04::RULE, assumptions: c04::ASSUMPTIONS, subs: c04::subs },
        PropMeta { id: "C05", rule: c05::RULE, assumptions: c05::ASSUMPTIONS, subs: c05::subs },
        PropMeta { id: "C06", rule: c06::RULE, assumptions: c06::ASSUMPTIONS, subs: c06::subs },
        PropMeta { id: "C07", rule: c07::RULE, assumptions: c07::ASSUMPTIONS, subs: c07::subs },
        PropMeta { id: "C08", rule: c08::RULE, assumptions: c08::ASSUMPTIONS, subs: c08::subs },
        PropMeta { id: "C09", rule: c09::RULE, assumptions: c09::ASSUMPTIONS, subs: c09::subs },
        PropMeta { id: "C10", rule: c10::RULE, assumptions: c10::ASSUMPTIONS, subs: c10::subs },
        PropMeta { id: "C11", rule: c11::RULE, assumptions: c11::ASSUMPTIONS, subs: c11::subs },
        PropMeta { id: "C12", rule: c12::RULE, assumptions: c12::ASSUMPTIONS, subs: c12::subs },
        PropMeta { id: "C13", rule: c13::RULE, assumptions: c13::ASSUMPTIONS, subs: c13::subs },
        PropMeta { id: "C14", rule: c14::RULE, assumptions: c14::ASSUMPTIONS, subs: c14::subs },
        PropMeta { id: "C15", rule: c15::RULE, assumptions: c15::ASSUMPTIONS, subs: c15::subs },
        PropMeta { id: "C16", rule: c16::RULE, assumptions: c16::ASSUMPTIONS, subs: c16::subs },
        PropMeta { id: "C17", rule: c17::RULE, assumptions: c17::ASSUMPTIONS, subs: c17::subs },
        PropMeta { id: "C18", rule: c18::RULE, assumptions: c18::ASSUMPTIONS, subs: c18::subs },
        PropMeta { id: "C19", rule: c19::RULE, assumptions: c19::ASSUMPTIONS, subs: c19::subs },
        PropMeta { id: "C20", rule: c20::RULE, assumptions: c20::ASSUMPTIONS, subs: c20::subs },
    ]
}

pub fn get(id: &str) -> Option<PropMeta> {
    all().into_iter().find(|p| p.id == id)
}

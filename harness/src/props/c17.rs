//! C17 — Julian Date, Modified Julian Date and UNIX views are exact affine re-expressions
use crate::engine::*;
use crate::gen::*;
use crate::model::*;
use crate::{ensure, lib};
use hifitime::{Epoch, TimeScale, Unit};
use proptest::prelude::*;
use serde::{Deserialize, Serialize};

pub const RULE: &str = "generated epochs in nine scales within +-10 000 years of 1900 (epoch_any classes: near references, leap entries, century boundaries, every time-of-day class) read through ~45 accessors; generated finite JD/MJD/UNIX inputs over the same span (integers, halves, generated fractions, values +-1 ulp) through the constructors and back; oracle = exact shifts of the model count (15 020 d, 2 415 020.5 d, 3 155 716 800 s, 2 208 988 800 s) for Duration-valued accessors, exact rational vs float within 4 ulp for float accessors; non-trivial = scale != TAI, negative count, |value| > 2^53 ns in the unit, or a constructor round trip; distinct = distinct case tuples (hash set, capped: lower bound)";

pub const ASSUMPTIONS: &[&str] = &[
    "for ET/TDB source epochs the TAI/UTC/TT counts are taken from the library's own to_time_scale (accuracy of that conversion is C07's); for uniform scales and UTC they come from the model",
    "float tolerance: 4 ulp of the value, or of one second's worth in that unit for smaller values",
    "constructor round trips: |delta| <= 4 ulp(max(|x|, |c|)) + 1 ns, c the shift constant in that unit for the JD/MJD views (whose constructors subtract c in f64) and 0 for the UNIX and seconds/days views (float precision of the value itself)",
    "from_jde_et / from_jde_tdb are documented as approximate (constant 32.184935 s): round trip within 4e-8 days",
];

const SPAN_D: i64 = 3_652_425; // 10 000 Julian years in days

#[derive(Clone, Debug, Serialize, Deserialize)]
pub struct View {
    pub e: Ep,
    pub u: usize,
}

fn view_strategy() -> BS<View> {
    (epoch_any(&ALL_SCALES), 0usize..9).prop_map(|(e, u)| View { e, u }).boxed()
}

pub fn check_float(name: &str, v: f64, p: i128, q: i128) -> Result<(), String> {
    let err = abs_err_vs_rational(v, p, q);
    let exact_mag = rational_to_f64(p.abs(), q);
    let one_sec = 1e9 / q as f64;
    let tol = 4.0 * ulp(exact_mag.max(one_sec));
    if err <= tol {
        Ok(())
    } else {
        Err(format!("{name} = {v:e}, exact {p}/{q}: error {err:e} > 4 ulp ({tol:e})"))
    }
}

fn view_oracle(c: &View) -> Verdict {
    let e = c.e.lib();
    let exact = c.e.s != S_ET && c.e.s != S_TDB;
    let (tai, utc, tt): (i128, Option<i128>, i128) = if exact {
        let t = to_tai(c.e.s, c.e.c);
        (t, from_tai(S_UTC, t), t + 32_184_000_000)
    } else {
        let t = count(lib!(e.to_time_scale(TimeScale::TAI)).duration);
        let u = count(lib!(e.to_time_scale(TimeScale::UTC)).duration);
        let tt = count(lib!(e.to_time_scale(TimeScale::TT)).duration);
        (t, Some(u), tt)
    };
    if tai.abs() > (SPAN_D as i128 + 36_525) * NS_D {
        return Verdict::Skip("outside +-10 000 years of 1900");
    }
    let mjd0 = 15_020 * NS_D;
    let jd0 = 2_415_020 * NS_D + NS_D / 2;
    let j2k = 3_155_716_800 * NS_S;
    let unix0 = 2_208_988_800 * NS_S;
    // Duration-valued, exact
    macro_rules! dur_eq {
        ($name:expr, $call:expr, $want:expr) => {{
            let d = lib!($call);
            ensure!(count(d) == $want, "{} of {} {} = {}, want {}", $name, SCALE_NAMES[c.e.s], c.e.c, count(d), $want);
            ensure!(canonical(d), "{} of {} {} is not canonical: {:?}", $name, SCALE_NAMES[c.e.s], c.e.c, d.to_parts());
        }};
    }
    dur_eq!("to_tai_duration", e.to_tai_duration(), tai);
    dur_eq!("to_tt_duration", e.to_tt_duration(), tt);
    dur_eq!("to_mjd_tt_duration", e.to_mjd_tt_duration(), tt + mjd0);
    dur_eq!("to_jde_tai_duration", e.to_jde_tai_duration(), tai + jd0);
    dur_eq!("to_jde_tt_duration", e.to_jde_tt_duration(), tt + jd0);
    dur_eq!("to_tt_since_j2k", e.to_tt_since_j2k(), tt - j2k);
    if let Some(u) = utc {
        dur_eq!("to_utc_duration", e.to_utc_duration(), u);
        dur_eq!("to_jde_utc_duration", e.to_jde_utc_duration(), u + jd0);
    }
    // float-valued
    let un = UNIT_NS[c.u];
    let unit: Unit = UNITS[c.u];
    macro_rules! fl {
        ($name:expr, $call:expr, $p:expr, $q:expr) => {{
            let v = lib!($call);
            if let Err(m) = check_float($name, v, $p, $q) {
                return Verdict::Fail(format!("{} {}: {}", SCALE_NAMES[c.e.s], c.e.c, m));
            }
        }};
    }
    fl!("to_tai_seconds", e.to_tai_seconds(), tai, NS_S);
    fl!("to_tai_days", e.to_tai_days(), tai, NS_D);
    fl!("to_tai(unit)", e.to_tai(unit), tai, un);
    fl!("to_mjd_tai_days", e.to_mjd_tai_days(), tai + mjd0, NS_D);
    fl!("to_mjd_tai_seconds", e.to_mjd_tai_seconds(), tai + mjd0, NS_S);
    fl!("to_mjd_tai(unit)", e.to_mjd_tai(unit), tai + mjd0, un);
    fl!("to_jde_tai_days", e.to_jde_tai_days(), tai + jd0, NS_D);
    fl!("to_jde_tai_seconds", e.to_jde_tai_seconds(), tai + jd0, NS_S);
    fl!("to_jde_tai(unit)", e.to_jde_tai(unit), tai + jd0, un);
    fl!("to_tt_seconds", e.to_tt_seconds(), tt, NS_S);
    fl!("to_tt_days", e.to_tt_days(), tt, NS_D);
    fl!("to_tt_centuries_j2k", e.to_tt_centuries_j2k(), tt - j2k, NPC);
    fl!("to_jde_tt_days", e.to_jde_tt_days(), tt + jd0, NS_D);
    fl!("to_mjd_tt_days", e.to_mjd_tt_days(), tt + mjd0, NS_D);
    fl!("to_gpst_seconds", e.to_gpst_seconds(), tai - zero_tai_ns(S_GPST), NS_S);
    fl!("to_gpst_days", e.to_gpst_days(), tai - zero_tai_ns(S_GPST), NS_D);
    fl!("to_qzsst_seconds", e.to_qzsst_seconds(), tai - zero_tai_ns(S_QZSST), NS_S);
    fl!("to_qzsst_days", e.to_qzsst_days(), tai - zero_tai_ns(S_QZSST), NS_D);
    fl!("to_gst_seconds", e.to_gst_seconds(), tai - zero_tai_ns(S_GST), NS_S);
    fl!("to_gst_days", e.to_gst_days(), tai - zero_tai_ns(S_GST), NS_D);
    fl!("to_bdt_seconds", e.to_bdt_seconds(), tai - zero_tai_ns(S_BDT), NS_S);
    fl!("to_bdt_days", e.to_bdt_days(), tai - zero_tai_ns(S_BDT), NS_D);
    if let Some(u) = utc {
        fl!("to_utc_seconds", e.to_utc_seconds(), u, NS_S);
        fl!("to_utc_days", e.to_utc_days(), u, NS_D);
        fl!("to_utc(unit)", e.to_utc(unit), u, un);
        fl!("to_mjd_utc_days", e.to_mjd_utc_days(), u + mjd0, NS_D);
        fl!("to_mjd_utc_seconds", e.to_mjd_utc_seconds(), u + mjd0, NS_S);
        fl!("to_mjd_utc(unit)", e.to_mjd_utc(unit), u + mjd0, un);
        fl!("to_jde_utc_days", e.to_jde_utc_days(), u + jd0, NS_D);
        fl!("to_jde_utc_seconds", e.to_jde_utc_seconds(), u + jd0, NS_S);
        fl!("to_unix(unit)", e.to_unix(unit), u - unix0, un);
        fl!("to_unix_seconds", e.to_unix_seconds(), u - unix0, NS_S);
        fl!("to_unix_milliseconds", e.to_unix_milliseconds(), u - unix0, 1_000_000);
        fl!("to_unix_days", e.to_unix_days(), u - unix0, NS_D);
    }
    // ET / TDB views: float accessors against the library's own Duration-valued conversion (its accuracy is C07's)
    let et = count(lib!(e.to_et_duration()));
    let tdb = count(lib!(e.to_tdb_duration()));
    let jd_j2000 = 2_451_545 * NS_D;
    dur_eq!("to_jde_et_duration", e.to_jde_et_duration(), et + jd_j2000);
    dur_eq!("to_jde_tdb_duration", e.to_jde_tdb_duration(), tdb + jd_j2000);
    fl!("to_et_seconds", e.to_et_seconds(), et, NS_S);
    fl!("to_tdb_seconds", e.to_tdb_seconds(), tdb, NS_S);
    fl!("to_et_days_since_j2000", e.to_et_days_since_j2000(), et, NS_D);
    fl!("to_et_centuries_since_j2000", e.to_et_centuries_since_j2000(), et, NPC);
    fl!("to_tdb_days_since_j2000", e.to_tdb_days_since_j2000(), tdb, NS_D);
    fl!("to_tdb_centuries_since_j2000", e.to_tdb_centuries_since_j2000(), tdb, NPC);
    fl!("to_jde_et_days", e.to_jde_et_days(), et + jd_j2000, NS_D);
    fl!("to_jde_et(unit)", e.to_jde_et(unit), et + jd_j2000, un);
    fl!("to_jde_tdb_days", e.to_jde_tdb_days(), tdb + jd_j2000, NS_D);
    let class = if c.e.c < 0 { "negative-count" } else if c.e.s != S_TAI { "scale!=TAI" } else if tai.abs() / un > (1i128 << 53) { ">2^53-in-unit" } else { "plain" };
    Verdict::Pass(class, class != "plain")
}

// ---------------------------------------------------------------- constructors and back
#[derive(Clone, Debug, Serialize, Deserialize)]
pub struct Ctor {
    pub x: Fl,
    /// 0 mjd_tai 1 mjd_utc 2 jde_tai 3 jde_utc 4 mjd_in(TT) 5 jde_in(TT) 6 unix_seconds 7 unix_milliseconds 8 unix_duration(ns) 9 jde_et 10 jde_tdb
    /// 11 mjd gpst 12 jde gst 13 tai_seconds 14 tai_days 15 utc_seconds 16 utc_days
    /// 17-24 from_mjd/jde_{gpst,qzsst,gst,bdt} wrappers; 25-32 from_{gpst,qzsst,gst,bdt}_{seconds,days}; 33 from_tt_seconds
    pub k: u8,
}

fn ctor_strategy() -> BS<Ctor> {
    // a day number relative to 1900 within the span, then shifted into the view
    let days = wunion(vec![
        (3, (-SPAN_D..=SPAN_D).prop_map(|d| d as f64).boxed()),
        (2, (-SPAN_D..=SPAN_D).prop_map(|d| d as f64 + 0.5).boxed()),
        (3, (-SPAN_D..=SPAN_D, any::<u64>()).prop_map(|(d, r)| d as f64 + (r >> 11) as f64 / (1u64 << 53) as f64).boxed()),
        (1, (-100i64..=100, 0u32..86_400).prop_map(|(d, s)| d as f64 + s as f64 / 86_400.0).boxed()),
        // non-integer values close to the UNIX reference (1970 = day 25567 from 1900)
        (2, (25_567i64 - 3_000..25_567 + 3_000, any::<u64>()).prop_map(|(d, r)| d as f64 + (r >> 11) as f64 / (1u64 << 53) as f64).boxed()),
        (1, (20_000i64..50_000, any::<u64>()).prop_map(|(d, r)| d as f64 + (r >> 11) as f64 / (1u64 << 53) as f64).boxed()),
        // the days that end with a leap second, and the days either side, with a fraction (UTC days of 86 401 s)
        (2, (1usize..28, -1i64..=1, any::<u64>()).prop_map(|(i, dd, r)| (leap_table()[i].0 / 86_400 - 1 + dd) as f64 + (r >> 11) as f64 / (1u64 << 53) as f64).boxed()),
    ]);
    (days, 0u8..34, -1i64..=1)
        .prop_map(|(d, k, ulps)| {
            let x = match k {
                0 | 1 | 4 | 11 => d + 15_020.0,
                2 | 3 | 5 | 9 | 10 | 12 => d + 2_415_020.5,
                6 => (d - 25_567.0) * 86_400.0,
                7 => (d - 25_567.0) * 86_400_000.0,
                8 => ((d - 25_567.0) * 86_400.0 * 1e9).trunc(),
                13 | 15 | 25 | 27 | 29 | 31 | 33 => d * 86_400.0,
                17..=20 => d + 15_020.0,
                21..=24 => d + 2_415_020.5,
                _ => d,
            };
            let x = f64::from_bits((x.to_bits() as i64 + ulps) as u64);
            Ctor { x: Fl::of(x), k }
        })
        .boxed()
}

fn ctor_oracle(c: &Ctor) -> Verdict {
    let x = c.x.v();
    if !x.is_finite() {
        return Verdict::Skip("not finite");
    }
    // (epoch, value read back, shift constant in the unit, one ns in the unit, extra tolerance)
    let (back, cst, ns_in_unit, extra): (f64, f64, f64, f64) = match c.k {
        0 => (lib!(Epoch::from_mjd_tai(x).to_mjd_tai_days()), 15_020.0, 1.0 / NS_D as f64, 0.0),
        1 => (lib!(Epoch::from_mjd_utc(x).to_mjd_utc_days()), 15_020.0, 1.0 / NS_D as f64, 0.0),
        2 => (lib!(Epoch::from_jde_tai(x).to_jde_tai_days()), 2_415_020.5, 1.0 / NS_D as f64, 0.0),
        3 => (lib!(Epoch::from_jde_utc(x).to_jde_utc_days()), 2_415_020.5, 1.0 / NS_D as f64, 0.0),
        4 => (lib!(Epoch::from_mjd_in_time_scale(x, TimeScale::TT).to_mjd_tt_days()), 15_020.0, 1.0 / NS_D as f64, 0.0),
        5 => (lib!(Epoch::from_jde_in_time_scale(x, TimeScale::TT).to_jde_tt_days()), 2_415_020.5, 1.0 / NS_D as f64, 0.0),
        6 => (lib!(Epoch::from_unix_seconds(x).to_unix_seconds()), 0.0, 1e-9, 0.0),
        7 => (lib!(Epoch::from_unix_milliseconds(x).to_unix_milliseconds()), 0.0, 1e-6, 0.0),
        8 => (lib!(Epoch::from_unix_duration(mk(x as i128)).to_unix(Unit::Nanosecond)), 0.0, 1.0, 0.0),
        9 => (lib!(Epoch::from_jde_et(x).to_jde_et_days()), 2_415_020.5, 1.0 / NS_D as f64, 4e-8),
        10 => (lib!(Epoch::from_jde_tdb(x).to_jde_tdb_days()), 2_415_020.5, 1.0 / NS_D as f64, 4e-8),
        11 => {
            // MJD in a GNSS scale: same affine map on that scale's own count
            let e = lib!(Epoch::from_mjd_gpst(x));
            ensure!(e.time_scale == TimeScale::GPST, "from_mjd_gpst scale");
            (rational_to_f64(count(e.duration), NS_D) + 15_020.0, 15_020.0, 1.0 / NS_D as f64, 0.0)
        }
        12 => {
            let e = lib!(Epoch::from_jde_gst(x));
            ensure!(e.time_scale == TimeScale::GST, "from_jde_gst scale");
            (rational_to_f64(count(e.duration), NS_D) + 2_415_020.5, 2_415_020.5, 1.0 / NS_D as f64, 0.0)
        }
        13 => (lib!(Epoch::from_tai_seconds(x).to_tai_seconds()), 0.0, 1e-9, 0.0),
        14 => (lib!(Epoch::from_tai_days(x).to_tai_days()), 0.0, 1.0 / NS_D as f64, 0.0),
        15 => (lib!(Epoch::from_utc_seconds(x).to_utc_seconds()), 0.0, 1e-9, 0.0),
        16 => (lib!(Epoch::from_utc_days(x).to_utc_days()), 0.0, 1.0 / NS_D as f64, 0.0),
        17..=24 => {
            // thin wrappers: identical to the generic constructor with the scale they name
            let (w, g, ts) = match c.k {
                17 => (lib!(Epoch::from_mjd_gpst(x)), lib!(Epoch::from_mjd_in_time_scale(x, TimeScale::GPST)), TimeScale::GPST),
                18 => (lib!(Epoch::from_mjd_qzsst(x)), lib!(Epoch::from_mjd_in_time_scale(x, TimeScale::QZSST)), TimeScale::QZSST),
                19 => (lib!(Epoch::from_mjd_gst(x)), lib!(Epoch::from_mjd_in_time_scale(x, TimeScale::GST)), TimeScale::GST),
                20 => (lib!(Epoch::from_mjd_bdt(x)), lib!(Epoch::from_mjd_in_time_scale(x, TimeScale::BDT)), TimeScale::BDT),
                21 => (lib!(Epoch::from_jde_gpst(x)), lib!(Epoch::from_jde_in_time_scale(x, TimeScale::GPST)), TimeScale::GPST),
                22 => (lib!(Epoch::from_jde_qzsst(x)), lib!(Epoch::from_jde_in_time_scale(x, TimeScale::QZSST)), TimeScale::QZSST),
                23 => (lib!(Epoch::from_jde_gst(x)), lib!(Epoch::from_jde_in_time_scale(x, TimeScale::GST)), TimeScale::GST),
                _ => (lib!(Epoch::from_jde_bdt(x)), lib!(Epoch::from_jde_in_time_scale(x, TimeScale::BDT)), TimeScale::BDT),
            };
            ensure!(w.time_scale == ts && g.time_scale == ts && w.duration.to_parts() == g.duration.to_parts(), "wrapper {} differs from the generic constructor in {:?}", c.k, ts);
            return Verdict::Pass("wrapper", true);
        }
        // float seconds / days since a GNSS reference, and back
        25 => (lib!(Epoch::from_gpst_seconds(x).to_gpst_seconds()), 0.0, 1e-9, 0.0),
        26 => (lib!(Epoch::from_gpst_days(x).to_gpst_days()), 0.0, 1.0 / NS_D as f64, 0.0),
        27 => (lib!(Epoch::from_qzsst_seconds(x).to_qzsst_seconds()), 0.0, 1e-9, 0.0),
        28 => (lib!(Epoch::from_qzsst_days(x).to_qzsst_days()), 0.0, 1.0 / NS_D as f64, 0.0),
        29 => (lib!(Epoch::from_gst_seconds(x).to_gst_seconds()), 0.0, 1e-9, 0.0),
        30 => (lib!(Epoch::from_gst_days(x).to_gst_days()), 0.0, 1.0 / NS_D as f64, 0.0),
        31 => (lib!(Epoch::from_bdt_seconds(x).to_bdt_seconds()), 0.0, 1e-9, 0.0),
        32 => (lib!(Epoch::from_bdt_days(x).to_bdt_days()), 0.0, 1.0 / NS_D as f64, 0.0),
        _ => (lib!(Epoch::from_tt_seconds(x).to_tt_seconds()), 0.0, 1e-9, 0.0),
    };
    // the GNSS float constructors must also land in the scale they name
    if (25..=32).contains(&c.k) {
        let e = match c.k {
            25 => lib!(Epoch::from_gpst_seconds(x)),
            26 => lib!(Epoch::from_gpst_days(x)),
            27 => lib!(Epoch::from_qzsst_seconds(x)),
            28 => lib!(Epoch::from_qzsst_days(x)),
            29 => lib!(Epoch::from_gst_seconds(x)),
            30 => lib!(Epoch::from_gst_days(x)),
            31 => lib!(Epoch::from_bdt_seconds(x)),
            _ => lib!(Epoch::from_bdt_days(x)),
        };
        let want_ts = [TimeScale::GPST, TimeScale::GPST, TimeScale::QZSST, TimeScale::QZSST, TimeScale::GST, TimeScale::GST, TimeScale::BDT, TimeScale::BDT][(c.k - 25) as usize];
        ensure!(e.time_scale == want_ts, "constructor {} builds an epoch in {:?}, want {:?}", c.k, e.time_scale, want_ts);
        let unit_ns = if c.k % 2 == 1 { NS_S } else { NS_D };
        ensure!(count(e.duration) == f64_trunc_i128(x * unit_ns as f64), "constructor {} of {:e}: count {}, want trunc(fl(x*unit)) = {}", c.k, x, count(e.duration), f64_trunc_i128(x * unit_ns as f64));
    }
    // the constructors that add `x * unit` to a reference: exactly the reference + trunc(fl(x * unit)) (C18's semantics)
    {
        let unix0 = 2_208_988_800 * NS_S;
        let exact: Option<(Epoch, i128, TimeScale)> = match c.k {
            6 => Some((lib!(Epoch::from_unix_seconds(x)), unix0 + f64_trunc_i128(x * 1e9), TimeScale::UTC)),
            7 => Some((lib!(Epoch::from_unix_milliseconds(x)), unix0 + f64_trunc_i128(x * 1e6), TimeScale::UTC)),
            13 => Some((lib!(Epoch::from_tai_seconds(x)), f64_trunc_i128(x * 1e9), TimeScale::TAI)),
            14 => Some((lib!(Epoch::from_tai_days(x)), f64_trunc_i128(x * NS_D as f64), TimeScale::TAI)),
            15 => Some((lib!(Epoch::from_utc_seconds(x)), f64_trunc_i128(x * 1e9), TimeScale::UTC)),
            16 => Some((lib!(Epoch::from_utc_days(x)), f64_trunc_i128(x * NS_D as f64), TimeScale::UTC)),
            33 => Some((lib!(Epoch::from_tt_seconds(x)), f64_trunc_i128(x * 1e9), TimeScale::TT)),
            _ => None,
        };
        if let Some((e, want, ts)) = exact {
            if want > DMIN && want < DMAX {
                ensure!(e.time_scale == ts && count(e.duration) == want, "constructor {} of {:e}: count {} in {:?}, want {} (reference + trunc(fl(x * unit))) in {:?}", c.k, x, count(e.duration), e.time_scale, want, ts);
            }
        }
    }
    let tol = 4.0 * ulp(x.abs().max(cst)) + ns_in_unit + extra;
    // the textual route of the same four views ("MJD x TAI", "JD x UTC", ...) must be as precise
    if c.k <= 3 {
        let txt = format!("{} {} {}", if c.k < 2 { "MJD" } else { "JD" }, x, if c.k % 2 == 0 { "TAI" } else { "UTC" });
        match lib!(<Epoch as std::str::FromStr>::from_str(&txt)) {
            Ok(e) => {
                let b2 = match c.k { 0 => lib!(e.to_mjd_tai_days()), 1 => lib!(e.to_mjd_utc_days()), 2 => lib!(e.to_jde_tai_days()), _ => lib!(e.to_jde_utc_days()) };
                ensure!((b2 - x).abs() <= tol, "text route {:?}: read back {:e} (difference {:e} > {:e})", txt, b2, (b2 - x).abs(), tol);
            }
            Err(err) => return Verdict::Fail(format!("{:?} does not parse: {:?}", txt, err)),
        }
        // other spellings of the same text (identifier glued to the number, padding, doubled blanks): whether they
        // are accepted is not documented, but an accepted one denotes the same value
        let (id, sc) = (if c.k < 2 { "MJD" } else { "JD" }, if c.k % 2 == 0 { "TAI" } else { "UTC" });
        for v in [format!("{id}{x} {sc}"), format!(" {id} {x} {sc}"), format!("{id} {x} {sc} "), format!("\t{id}  {x}  {sc}\n"), format!("{id} {x}{sc}")] {
            if let Ok(e) = lib!(<Epoch as std::str::FromStr>::from_str(&v)) {
                let b2 = match c.k { 0 => lib!(e.to_mjd_tai_days()), 1 => lib!(e.to_mjd_utc_days()), 2 => lib!(e.to_jde_tai_days()), _ => lib!(e.to_jde_utc_days()) };
                ensure!((b2 - x).abs() <= tol, "text {:?} is accepted but reads back {:e} (difference {:e} > {:e})", v, b2, (b2 - x).abs(), tol);
            }
        }
    }
    ensure!((back - x).abs() <= tol, "view {}: built from {:e}, read back {:e} (difference {:e} > {:e})", c.k, x, back, (back - x).abs(), tol);
    Verdict::Pass("constructor-round-trip", true)
}

// ---------------------------------------------------------------- the published JD / MJD / J2000 constants (enumerated; C05's oracle)
fn jd_const_enum(_t: Tier, shard: usize, sink: &mut dyn FnMut(crate::props::c05::ConstCase) -> bool) {
    for k in 30..40usize {
        if k % SHARDS == shard && !sink(crate::props::c05::ConstCase { k }) {
            return;
        }
    }
}

// ---------------------------------------------------------------- the shortest numeric texts (enumerated)
#[derive(Clone, Debug, Serialize, Deserialize)]
pub struct ShortText {
    /// 0 JD, 1 MJD, 2 SEC
    pub form: u8,
    pub digit: u8,
    pub scale: usize,
}

fn short_enum(_t: Tier, shard: usize, sink: &mut dyn FnMut(ShortText) -> bool) {
    let mut i = 0;
    for form in 0..3u8 {
        for digit in 0..10u8 {
            for scale in 0..9usize {
                i += 1;
                if i % SHARDS == shard && !sink(ShortText { form, digit, scale }) {
                    return;
                }
            }
        }
    }
}

/// "JD 5 ET" is seven characters, the documented minimum ("at least seven characters for a valid epoch"; the
/// documentation's examples parse JD values in ET, TDB and TAI): single-digit values in the documented spelling parse,
/// and denote that value
fn short_oracle(c: &ShortText) -> Verdict {
    let id = ["JD", "MJD", "SEC"][c.form as usize];
    let txt = format!("{} {} {}", id, c.digit, SCALE_NAMES[c.scale]);
    let r = lib!(<Epoch as std::str::FromStr>::from_str(&txt));
    // asserted where the statement (C10, C17) and the documentation's examples fix the denotation
    let asserted = match c.form {
        0 | 1 => c.scale == S_TAI || c.scale == S_UTC || (c.form == 0 && (c.scale == S_ET || c.scale == S_TDB)),
        _ => c.scale != S_UTC,
    };
    if !asserted {
        return Verdict::Skip("denotation of this form in this scale is not documented");
    }
    let e = match r {
        Ok(e) => e,
        Err(err) => return Verdict::Fail(format!("{:?} ({} characters) does not parse: {:?}", txt, txt.len(), err)),
    };
    let x = c.digit as f64;
    let (back, tol) = match (c.form, c.scale) {
        (0, S_TAI) => (lib!(e.to_jde_tai_days()), 1e-9),
        (0, S_UTC) => (lib!(e.to_jde_utc_days()), 1e-9),
        (0, S_ET) => (lib!(e.to_jde_et_days()), 4e-8),
        (0, _) => (lib!(e.to_jde_tdb_days()), 4e-8),
        (1, S_TAI) => (lib!(e.to_mjd_tai_days()), 1e-9),
        (1, _) => (lib!(e.to_mjd_utc_days()), 1e-9),
        _ => (ns_to_s(count(e.duration)), 1e-9),
    };
    ensure!((back - x).abs() <= tol, "{:?} reads back {} (difference {:e})", txt, back, (back - x).abs());
    if c.form == 2 {
        ensure!(e.time_scale == SCALES[c.scale], "{:?} builds an epoch in {:?}", txt, e.time_scale);
    }
    Verdict::Pass(if txt.len() == 7 { "seven-characters" } else { "short" }, true)
}

pub fn subs() -> Vec<Box<dyn DynSub>> {
    vec![
        sub(Sub { name: "c17.views", source: Source::Gen(view_strategy, 2_000_000, 10_000_000), oracle: view_oracle, known: no_known, hang_is_violation: false }),
        sub(Sub { name: "c17.constructors", source: Source::Gen(ctor_strategy, 2_000_000, 10_000_000), oracle: ctor_oracle, known: no_known, hang_is_violation: false }),
        sub(Sub { name: "c17.constants", source: Source::Enum(jd_const_enum, |_| true), oracle: crate::props::c05::const_oracle, known: no_known, hang_is_violation: false }),
        sub(Sub { name: "c17.short_text", source: Source::Enum(short_enum, |_| true), oracle: short_oracle, known: no_known, hang_is_violation: false }),
        crate::props::fuzzsub::fc17(),
    ]
}

//! Operation sequences ("histories"). A generated program of operations is run on the library value and on the model
//! value in lockstep; the two are compared after every step, and relations between any two states of the history
//! (differences, round trips back to the start) are checked at the end. Operands may be *relative to the current
//! state* (`Toward`): "whatever brings the value to 3 ns before the next century boundary / the bound / zero / the
//! mirror image / a leap entry", which is how a history reaches the case splits again and again with values the
//! library itself produced, and how successive calls get the correlated arguments (same day, same year, one
//! nanosecond apart, the value just seen) on which a cache, a memo or any other state kept between calls would show.
//! The whole program is one proptest value (`vec(op, 1..=N)`), so it shrinks as one value: operations are dropped and
//! operands shrink toward zero.
//!
//! Every chain only uses operations and assertions of its own property's statement.
use crate::engine::*;
use crate::gen::*;
use crate::model::*;
use crate::{ensure, fail, lib};
use hifitime::{Duration, Epoch};
use proptest::prelude::*;
use serde::{Deserialize, Serialize};

fn in_open_range(x: i128) -> bool {
    x > DMIN && x < DMAX
}

// ================================================================== C01: Duration arithmetic history

#[derive(Clone, Debug, Serialize, Deserialize)]
pub enum DOp {
    Add(i128),
    Sub(i128),
    AddAssign(i128),
    SubAssign(i128),
    Neg,
    Abs,
    Mul(i64),
    MulRev(i64),
    Div(i64),
    AddUnit(usize),
    SubUnit(usize),
    /// add (or subtract the negation of) whatever brings the current value to a target:
    /// kind 0: the century boundary `k` centuries from the current one, 1: the maximum, 2: the minimum, 3: zero,
    /// 4: the mirror image (minus the current value); all plus `delta`
    Toward { kind: u8, k: i8, delta: i128, sub: bool },
    /// multiply by the integer that brings the product next to a target (kind 0 maximum, 1 minimum, 2 one century)
    MulToward { kind: u8, delta: i8 },
}

#[derive(Clone, Debug, Serialize, Deserialize)]
pub struct DChain {
    pub start: i128,
    pub ops: Vec<DOp>,
}

fn dop() -> BS<DOp> {
    let operand = || wunion(vec![(3, count_any()), (2, small_delta(5)), (2, (0usize..9, -1000i128..=1000).prop_map(|(u, k)| k * UNIT_NS[u]).boxed())]);
    wunion(vec![
        (2, operand().prop_map(DOp::Add).boxed()),
        (2, operand().prop_map(DOp::Sub).boxed()),
        (1, operand().prop_map(DOp::AddAssign).boxed()),
        (1, operand().prop_map(DOp::SubAssign).boxed()),
        (2, Just(DOp::Neg).boxed()),
        (1, Just(DOp::Abs).boxed()),
        (2, i64_any().prop_map(DOp::Mul).boxed()),
        (1, i64_any().prop_map(DOp::MulRev).boxed()),
        (2, i64_any().prop_map(DOp::Div).boxed()),
        (1, prop::sample::select(vec![-3i64, -2, -1, 1, 2, 3, 7, 10, 1000]).prop_map(DOp::Mul).boxed()),
        (1, prop::sample::select(vec![-3i64, -2, -1, 1, 2, 3, 7, 10, 1000]).prop_map(DOp::Div).boxed()),
        (1, (0usize..9).prop_map(DOp::AddUnit).boxed()),
        (1, (0usize..9).prop_map(DOp::SubUnit).boxed()),
        (6, (0u8..5, -2i8..=2, small_delta(3), any::<bool>()).prop_map(|(kind, k, delta, sub)| DOp::Toward { kind, k, delta, sub }).boxed()),
        (2, (0u8..3, -3i8..=3).prop_map(|(kind, delta)| DOp::MulToward { kind, delta }).boxed()),
    ])
}

fn dchain_strategy() -> BS<DChain> {
    (count_any(), prop::collection::vec(dop(), 1..=16)).prop_map(|(start, ops)| DChain { start: clamp(start), ops }).boxed()
}

fn dchain_oracle(c: &DChain) -> Verdict {
    let mut cur = clamp(c.start);
    let mut l: Duration = mk(cur);
    let (mut executed, mut saturated, mut sign_changes, mut deep_negative, mut crossed) = (0u32, false, 0u32, false, false);
    for (i, op) in c.ops.iter().enumerate() {
        // (exact result or None when it overflows i128, library result)
        let zone = |d: Duration, q: i64| crate::props::c01::reads_bad_total_ns(d) || crate::props::c01::reads_bad_total_ns(mk(q as i128));
        let sat_mul = |a: i128, q: i128| match a.checked_mul(q) {
            Some(x) => clamp(x),
            None => {
                if (a < 0) != (q < 0) {
                    DMIN
                } else {
                    DMAX
                }
            }
        };
        let (want, r): (i128, Duration) = match *op {
            DOp::Add(x) => (clamp(cur + clamp(x)), lib!(l + mk(x))),
            DOp::Sub(x) => (clamp(cur - clamp(x)), lib!(l - mk(x))),
            DOp::AddAssign(x) => (clamp(cur + clamp(x)), lib!({
                let mut t = l;
                t += mk(x);
                t
            })),
            DOp::SubAssign(x) => (clamp(cur - clamp(x)), lib!({
                let mut t = l;
                t -= mk(x);
                t
            })),
            DOp::Neg => (clamp(-cur), lib!(-l)),
            DOp::Abs => (clamp(cur.abs()), lib!(l.abs())),
            DOp::Mul(q) | DOp::MulRev(q) => {
                if zone(l, q) {
                    continue; // open finding KF-total-ns-sign: excluded by construction (c01.muldiv carries the defect model)
                }
                (sat_mul(cur, q as i128), if matches!(op, DOp::Mul(_)) { lib!(l * q) } else { lib!(q * l) })
            }
            DOp::Div(q) => {
                if q == 0 || zone(l, q) {
                    continue;
                }
                (clamp(cur / q as i128), lib!(l / q))
            }
            DOp::AddUnit(u) => (clamp(cur + UNIT_NS[u]), lib!(l + UNITS[u])),
            DOp::SubUnit(u) => (clamp(cur - UNIT_NS[u]), lib!(l - UNITS[u])),
            DOp::Toward { kind, k, delta, sub } => {
                let target = match kind {
                    0 => (cur.div_euclid(NPC) + k as i128) * NPC,
                    1 => DMAX,
                    2 => DMIN,
                    3 => 0,
                    _ => -cur,
                } + delta;
                let x = clamp(target - cur);
                if sub {
                    let nx = clamp(-x);
                    (clamp(cur - nx), lib!(l - mk(nx)))
                } else {
                    (clamp(cur + x), lib!(l + mk(x)))
                }
            }
            DOp::MulToward { kind, delta } => {
                if cur == 0 {
                    continue;
                }
                let target = match kind {
                    0 => DMAX,
                    1 => DMIN,
                    _ => NPC,
                };
                let q = (target / cur + delta as i128).clamp(i64::MIN as i128, i64::MAX as i128) as i64;
                if zone(l, q) {
                    continue;
                }
                (sat_mul(cur, q as i128), lib!(l * q))
            }
        };
        ensure!(canonical(r), "step {} ({:?}) on {:?} (count {}): result {:?} is not canonical", i, op, l.to_parts(), cur, r.to_parts());
        ensure!(
            count(r) == want,
            "step {} ({:?}) on {:?} (count {}): got {:?} (count {}), want count {}",
            i, op, l.to_parts(), cur, r.to_parts(), count(r), want
        );
        executed += 1;
        if want == DMIN || want == DMAX {
            saturated = true;
        }
        if (want < 0) != (cur < 0) {
            sign_changes += 1;
        }
        if want.div_euclid(NPC) != cur.div_euclid(NPC) {
            crossed = true;
        }
        if want < -2 * NPC {
            deep_negative = true;
        }
        cur = want;
        l = r;
    }
    if executed == 0 {
        return Verdict::Skip("no operation of the history could be executed");
    }
    let class = if saturated {
        "history-with-saturation"
    } else if deep_negative {
        "history-below--2-centuries"
    } else if sign_changes > 0 {
        "history-with-sign-change"
    } else if crossed {
        "history-crossing-century"
    } else {
        "plain"
    };
    Verdict::Pass(class, executed >= 3 && class != "plain")
}

pub fn c01_chain() -> Box<dyn DynSub> {
    sub(Sub { name: "c01.chain", source: Source::Gen(dchain_strategy, 600_000, 6_000_000), oracle: dchain_oracle, known: no_known, hang_is_violation: false })
}

// ================================================================== C04: Epoch +- Duration history

#[derive(Clone, Debug, Serialize, Deserialize)]
pub enum EOp {
    Add(i128),
    Sub(i128),
    AddAssign(i128),
    SubAssign(i128),
    AddUnit(usize),
    SubUnit(usize),
    /// epoch + float seconds that are an exact integer
    AddSecs(i64),
    /// move to a target reading: kind 0 century boundary of the count (`k` centuries away), 1 the scale's reference
    /// epoch, 2 the mirror image (minus the current reading), 3 the reading of leap entry `k mod 28`, 4 the start of
    /// the history; all plus `delta`; `sub`: by subtracting the negated duration
    Toward { kind: u8, k: i8, delta: i128, sub: bool },
}

#[derive(Clone, Debug, Serialize, Deserialize)]
pub struct EChain {
    pub e: Ep,
    pub ops: Vec<EOp>,
}

fn eop() -> BS<EOp> {
    let operand = || wunion(vec![
        (2, (any::<bool>(), log_mag(70)).prop_map(|(s, m)| if s { -m } else { m }).boxed()),
        (2, small_delta(5)),
        (2, near_offset()),
        (2, (0usize..9, -1000i128..=1000).prop_map(|(u, k)| k * UNIT_NS[u]).boxed()),
    ]);
    wunion(vec![
        (2, operand().prop_map(EOp::Add).boxed()),
        (2, operand().prop_map(EOp::Sub).boxed()),
        (1, operand().prop_map(EOp::AddAssign).boxed()),
        (1, operand().prop_map(EOp::SubAssign).boxed()),
        (1, (0usize..9).prop_map(EOp::AddUnit).boxed()),
        (1, (0usize..9).prop_map(EOp::SubUnit).boxed()),
        (1, prop_oneof![(-4_600_000_000i64..=4_600_000_000), (-100i64..=100), Just(86_400i64), Just(-86_400i64)].prop_map(EOp::AddSecs).boxed()),
        (6, (0u8..5, -30i8..=30, prop_oneof![small_delta(3), near_offset()], any::<bool>()).prop_map(|(kind, k, delta, sub)| EOp::Toward { kind, k, delta, sub }).boxed()),
    ])
}

fn echain_strategy() -> BS<EChain> {
    (epoch_any(&ALL_SCALES), prop::collection::vec(eop(), 1..=12)).prop_map(|(e, ops)| EChain { e, ops }).boxed()
}

fn echain_oracle(c: &EChain) -> Verdict {
    if !in_open_range(c.e.c) {
        return Verdict::Skip("a bound would be hit");
    }
    let ts = SCALES[c.e.s];
    let start = c.e.lib();
    let mut hist: Vec<(i128, Epoch)> = vec![(c.e.c, start)];
    let (mut crossed, mut leap, mut pre) = (false, false, c.e.c < 0);
    for (i, op) in c.ops.iter().enumerate() {
        let (cur, l) = *hist.last().unwrap();
        // signed shift applied by the operation, and the library's result
        let shift: i128 = match *op {
            EOp::Add(x) | EOp::AddAssign(x) => x,
            EOp::Sub(x) | EOp::SubAssign(x) => -x,
            EOp::AddUnit(u) => UNIT_NS[u],
            EOp::SubUnit(u) => -UNIT_NS[u],
            EOp::AddSecs(s) => f64_trunc_i128(s as f64 * 1e9),
            EOp::Toward { kind, k, delta, .. } => {
                let target = match kind {
                    0 => (cur.div_euclid(NPC) + (k as i128).clamp(-2, 2)) * NPC,
                    1 => 0,
                    2 => -cur,
                    3 => leap_entries_ns()[(k as i128).rem_euclid(28) as usize].0,
                    _ => c.e.c,
                } + delta;
                target - cur
            }
        };
        let want = cur + shift;
        if !in_open_range(want) || !in_open_range(shift) {
            continue; // a bound would be hit: the statement excludes it
        }
        let r: Epoch = match *op {
            EOp::Add(x) => lib!(l + mk(x)),
            EOp::Sub(x) => lib!(l - mk(x)),
            EOp::AddAssign(x) => lib!({
                let mut t = l;
                t += mk(x);
                t
            }),
            EOp::SubAssign(x) => lib!({
                let mut t = l;
                t -= mk(x);
                t
            }),
            EOp::AddUnit(u) => lib!(l + UNITS[u]),
            EOp::SubUnit(u) => lib!(l - UNITS[u]),
            EOp::AddSecs(s) => lib!(l + s as f64),
            EOp::Toward { sub, .. } => {
                if sub {
                    lib!(l - mk(-shift))
                } else {
                    lib!(l + mk(shift))
                }
            }
        };
        ensure!(r.time_scale == ts, "step {} ({:?}): time scale changed from {:?} to {:?}", i, op, ts, r.time_scale);
        ensure!(canonical(r.duration), "step {} ({:?}): duration of the result is not canonical: {:?}", i, op, r.duration.to_parts());
        ensure!(
            count(r.duration) == want,
            "step {} ({:?}) on {} count {}: got count {}, want {}",
            i, op, SCALE_NAMES[c.e.s], cur, count(r.duration), want
        );
        // the difference inverts the step
        let back = lib!(r - l);
        ensure!(count(back) == shift, "step {} ({:?}) on {} count {}: (result - previous) = {}, want {}", i, op, SCALE_NAMES[c.e.s], cur, count(back), shift);
        crossed |= cur.div_euclid(NPC) != want.div_euclid(NPC);
        leap |= c.e.s == S_UTC && dat_at_utc(cur) != dat_at_utc(want);
        pre |= want < 0;
        hist.push((want, r));
    }
    if hist.len() < 2 {
        return Verdict::Skip("no operation of the history could be executed");
    }
    // differences between any two states of the history (the first six and the last), and e + (f - e) = f
    let mut idx: Vec<usize> = (0..hist.len().min(6)).collect();
    if hist.len() > 6 {
        idx.push(hist.len() - 1);
    }
    for &a in &idx {
        for &b in &idx {
            let ((ca, ea), (cb, eb)) = (hist[a], hist[b]);
            if !in_open_range(cb - ca) {
                continue;
            }
            let d = lib!(eb - ea);
            ensure!(count(d) == cb - ca, "state {} - state {} of the history ({} counts {} and {}): got {}, want {}", b, a, SCALE_NAMES[c.e.s], cb, ca, count(d), cb - ca);
            let again = lib!(ea + d);
            ensure!(
                again.time_scale == ts && again.duration.to_parts() == eb.duration.to_parts(),
                "e + (f - e) != f for states {} and {} of the history ({} counts {} and {}): got count {}",
                a, b, SCALE_NAMES[c.e.s], ca, cb, count(again.duration)
            );
        }
    }
    let class = if leap { "history-crossing-leap-entry" } else if crossed { "history-crossing-century" } else if pre { "history-before-reference" } else { "plain" };
    Verdict::Pass(class, hist.len() >= 4 && class != "plain")
}

pub fn c04_chain() -> Box<dyn DynSub> {
    sub(Sub { name: "c04.chain", source: Source::Gen(echain_strategy, 400_000, 4_000_000), oracle: echain_oracle, known: no_known, hang_is_violation: false })
}

// ================================================================== C05 / C06: conversion walks

#[derive(Clone, Debug, Serialize, Deserialize)]
pub enum WOp {
    /// convert to the scale with this index into the walk's scale set
    To(usize),
    /// add a duration in the current scale
    Add(i128),
    /// move (by adding a duration) to a target reading of the current scale: kind 0 the instant at which scale `k` of
    /// the set reads zero, 1 the mirror image of the current reading, 2 a century boundary of the current reading,
    /// 3 leap entry `k mod 28` on the UTC axis, 4 the same entry on the TAI axis (after the step); plus `delta`
    Toward { kind: u8, k: i8, delta: i128 },
}

#[derive(Clone, Debug, Serialize, Deserialize)]
pub struct Walk {
    pub e: Ep,
    pub ops: Vec<WOp>,
}

const C06_SCALES: [usize; 4] = [S_UTC, S_TAI, S_GPST, S_TT];

fn wop(nscales: usize) -> BS<WOp> {
    wunion(vec![
        (6, (0..nscales).prop_map(WOp::To).boxed()),
        (2, prop_oneof![small_delta(5), near_offset(), (any::<bool>(), log_mag(66)).prop_map(|(s, m)| if s { -m } else { m })].prop_map(WOp::Add).boxed()),
        (3, (0u8..5, -30i8..=30, prop_oneof![small_delta(3), near_offset()]).prop_map(|(kind, k, delta)| WOp::Toward { kind, k, delta }).boxed()),
    ])
}

fn walk5_strategy() -> BS<Walk> {
    (epoch_any(&UNIFORM), prop::collection::vec(wop(6), 2..=12)).prop_map(|(e, ops)| Walk { e, ops }).boxed()
}

fn walk6_strategy() -> BS<Walk> {
    (epoch_any(&C06_SCALES), prop::collection::vec(wop(4), 2..=12)).prop_map(|(e, ops)| Walk { e, ops }).boxed()
}

/// shared interpreter: `set` is the scale set of the walk (uniform scales for C05; UTC, TAI, GPST, TT for C06)
fn walk_oracle(c: &Walk, set: &[usize], with_utc: bool) -> Verdict {
    if !set.contains(&c.e.s) {
        return Verdict::Skip("start scale outside the walk's scale set");
    }
    let margin = 200 * NPC / 100; // two centuries: every offset between the scales fits
    let ok = |x: i128| x > DMIN + margin && x < DMAX - margin;
    if !ok(c.e.c) {
        return Verdict::Skip("a bound would be hit");
    }
    let (mut s, mut cur, mut l) = (c.e.s, c.e.c, c.e.lib());
    let mut added: i128 = 0; // sum of the durations added (valid for the round trip when no leap entry interferes)
    let (mut conversions, mut scales_seen, mut near_leap, mut pre) = (0u32, vec![c.e.s], false, false);
    let mut utc_added = false;
    for (i, op) in c.ops.iter().enumerate() {
        match *op {
            WOp::To(k) => {
                let s2 = set[k % set.len()];
                let tai = to_tai(s, cur);
                let Some(want) = from_tai(s2, tai) else {
                    // a TAI instant inside an inserted second has no UTC count: the history ends here
                    break;
                };
                if !ok(want) {
                    continue;
                }
                let r = lib!(l.to_time_scale(SCALES[s2]));
                ensure!(r.time_scale == SCALES[s2], "step {}: to_time_scale({}) returned an epoch in {:?}", i, SCALE_NAMES[s2], r.time_scale);
                ensure!(canonical(r.duration), "step {}: duration not canonical after conversion: {:?}", i, r.duration.to_parts());
                ensure!(
                    count(r.duration) == want,
                    "step {}: {} count {} -> {}: got count {}, want {} (history {:?})",
                    i, SCALE_NAMES[s], cur, SCALE_NAMES[s2], count(r.duration), want, c.ops
                );
                if s2 == s {
                    ensure!(r.duration.to_parts() == l.duration.to_parts(), "step {}: conversion to the epoch's own scale is not the identity", i);
                } else {
                    conversions += 1;
                }
                if !scales_seen.contains(&s2) {
                    scales_seen.push(s2);
                }
                s = s2;
                cur = want;
                l = r;
            }
            WOp::Add(_) | WOp::Toward { .. } => {
                let d = match *op {
                    WOp::Add(d) => d,
                    WOp::Toward { kind, k, delta } => {
                        let target = match kind {
                            0 => {
                                let z = set[(k as i128).rem_euclid(set.len() as i128) as usize];
                                // the reading, in the current scale, of the instant at which scale z reads zero
                                match from_tai(s, to_tai(z, 0)) {
                                    Some(t) => t,
                                    None => continue,
                                }
                            }
                            1 => -cur,
                            2 => (cur.div_euclid(NPC) + (k as i128).clamp(-2, 2)) * NPC,
                            3 | 4 => {
                                let (tsn, _b, a) = leap_entries_ns()[(k as i128).rem_euclid(28) as usize];
                                let tai = if kind == 3 { utc_to_tai(tsn) } else { tsn + a as i128 * NS_S };
                                // a reading near the entry in the current scale (for UTC: the entry itself)
                                match from_tai(s, tai) {
                                    Some(t) => t,
                                    None => tsn,
                                }
                            }
                            _ => 0,
                        } + delta;
                        target - cur
                    }
                    _ => unreachable!(),
                };
                let want = cur + d;
                if !ok(want) || !in_open_range(d) {
                    continue;
                }
                let r = lib!(l + mk(d));
                ensure!(r.time_scale == SCALES[s], "step {}: adding a duration changed the time scale", i);
                ensure!(count(r.duration) == want, "step {}: {} count {} + {}: got count {}, want {}", i, SCALE_NAMES[s], cur, d, count(r.duration), want);
                added += d;
                utc_added |= s == S_UTC;
                cur = want;
                l = r;
            }
        }
        pre |= cur < 0;
        if with_utc && dist_to_leap(to_tai(s, cur)) < 41 * NS_S {
            near_leap = true;
        }
    }
    if conversions == 0 {
        return Verdict::Skip("no conversion was executed");
    }
    // back to the scale of the start: the start plus everything added (conversion commutes with adding a duration).
    // With UTC in the walk a duration added on the UTC axis spans the leap seconds it crosses, so the closing identity
    // is asserted only when every addition happened in a uniform scale.
    let tai_now = to_tai(s, cur);
    if let Some(want) = from_tai(c.e.s, tai_now) {
        if ok(want) {
            let r = lib!(l.to_time_scale(SCALES[c.e.s]));
            ensure!(
                count(r.duration) == want && r.time_scale == SCALES[c.e.s],
                "closing conversion {} count {} -> {}: got count {}, want {} (history {:?})",
                SCALE_NAMES[s], cur, SCALE_NAMES[c.e.s], count(r.duration), want, c.ops
            );
            if !with_utc || (!utc_added && c.e.s != S_UTC) {
                ensure!(
                    want == c.e.c + added,
                    "model self-check: the walk does not close ({} start {} added {} end {})",
                    SCALE_NAMES[c.e.s], c.e.c, added, want
                );
            }
        }
    }
    let class = if near_leap {
        "walk-near-leap-entry"
    } else if scales_seen.len() >= 3 {
        "walk-through-3+-scales"
    } else if pre {
        "walk-before-reference"
    } else {
        "plain"
    };
    Verdict::Pass(class, conversions >= 2 && class != "plain")
}

fn walk5_oracle(c: &Walk) -> Verdict {
    walk_oracle(c, &UNIFORM, false)
}

fn walk6_oracle(c: &Walk) -> Verdict {
    walk_oracle(c, &C06_SCALES, true)
}

pub fn c05_chain() -> Box<dyn DynSub> {
    sub(Sub { name: "c05.chain", source: Source::Gen(walk5_strategy, 400_000, 4_000_000), oracle: walk5_oracle, known: no_known, hang_is_violation: false })
}

pub fn c06_chain() -> Box<dyn DynSub> {
    sub(Sub { name: "c06.chain", source: Source::Gen(walk6_strategy, 400_000, 4_000_000), oracle: walk6_oracle, known: no_known, hang_is_violation: false })
}

// ================================================================== C09: calendar walks

#[derive(Clone, Debug, Serialize, Deserialize)]
pub enum GOp {
    Day(i8),
    /// same day of the month `k` months away (clamped to the month's length)
    Month(i8),
    /// same month and day `k` years away (29 February becomes 28 February in a common year)
    Year(i16),
    /// month and day of the current year (day clamped to the month's length)
    MonthDay(u8, u8),
    /// time of day: 0 midnight, 1 last nanosecond, 2 noon, 3 the given nanosecond of the day, 4 unchanged plus 1 ns
    Tod(u8, u64),
    /// the same calendar reading in another time scale
    Scale(usize),
    /// the same elapsed time (identical `Duration`) in another time scale: another calendar reading
    Relabel(usize),
}

#[derive(Clone, Debug, Serialize, Deserialize)]
pub struct GWalk {
    /// scale index and nanoseconds since 1900-01-01T00:00:00 of the scale's own calendar
    pub s: usize,
    pub g: i128,
    pub ops: Vec<GOp>,
}

fn gop() -> BS<GOp> {
    wunion(vec![
        (3, (-3i8..=3).prop_map(GOp::Day).boxed()),
        (2, (-13i8..=13).prop_map(GOp::Month).boxed()),
        (3, prop::sample::select(vec![-1000i16, -400, -100, -4, -3, -1, 1, 3, 4, 100, 400, 1000]).prop_map(GOp::Year).boxed()),
        (3, prop_oneof![Just((2u8, 28u8)), Just((2, 29)), Just((3, 1)), Just((12, 31)), Just((1, 1)), Just((2, 31)), (1u8..=12, 1u8..=31)].prop_map(|(m, d)| GOp::MonthDay(m, d)).boxed()),
        (3, (0u8..5, 0u64..86_400_000_000_000).prop_map(|(k, n)| GOp::Tod(k, n)).boxed()),
        (2, (0usize..9).prop_map(GOp::Scale).boxed()),
        (2, (0usize..9).prop_map(GOp::Relabel).boxed()),
    ])
}

fn gwalk_strategy() -> BS<GWalk> {
    (0usize..9, ns1900_0001_9999(), prop::collection::vec(gop(), 1..=12)).prop_map(|(s, g, ops)| GWalk { s, g, ops }).boxed()
}

fn gwalk_oracle(c: &GWalk) -> Verdict {
    let mut sc = c.s;
    let mut ts = SCALES[sc];
    let mut g1900 = c.g;
    let (mut steps, mut leap_day, mut pre_ref, mut year_jump) = (0u32, false, false, false);
    // state 0 is built from the count; every later state is built by the library from the fields of the model
    let mut e = Epoch::from_duration(mk(c.g - greg_offset_ns(sc)), ts);
    for (i, op) in std::iter::once(None).chain(c.ops.iter().map(Some)).enumerate() {
        if let Some(op) = op {
            let g = greg_of_ns1900(g1900);
            let tod = g1900.rem_euclid(NS_D);
            let (mut y, mut m, mut d, mut t) = (g.y, g.m, g.d, tod);
            match *op {
                GOp::Day(k) => {
                    let (yy, mm, dd) = civil_from_days(days_from_civil(y, m, d) + k as i64);
                    y = yy;
                    m = mm;
                    d = dd;
                }
                GOp::Month(k) => {
                    let idx = y * 12 + (m as i64 - 1) + k as i64;
                    y = idx.div_euclid(12);
                    m = idx.rem_euclid(12) as u32 + 1;
                    d = d.min(month_len(y, m));
                }
                GOp::Year(k) => {
                    y += k as i64;
                    d = d.min(month_len(y, m));
                    year_jump = true;
                }
                GOp::MonthDay(mm, dd) => {
                    m = mm as u32;
                    d = (dd as u32).min(month_len(y, m));
                }
                GOp::Tod(k, n) => {
                    t = match k {
                        0 => 0,
                        1 => NS_D - 1,
                        2 => 12 * NS_H,
                        3 => n as i128,
                        _ => (tod + 1).min(NS_D - 1),
                    };
                }
                GOp::Scale(k) => {
                    sc = k % 9;
                    ts = SCALES[sc];
                }
                GOp::Relabel(k) => {
                    let cnt = g1900 - greg_offset_ns(sc);
                    sc = k % 9;
                    ts = SCALES[sc];
                    let g2 = greg_of_ns1900(cnt + greg_offset_ns(sc));
                    y = g2.y;
                    m = g2.m;
                    d = g2.d;
                    t = (cnt + greg_offset_ns(sc)).rem_euclid(NS_D);
                }
            }
            if !(1..=9999).contains(&y) {
                continue;
            }
            g1900 = days_1900(y, m, d) as i128 * NS_D + t;
            // the library builds the next state from the fields
            let (hh, mi, ss, ns) = ((t / NS_H) as u8, ((t % NS_H) / NS_MIN) as u8, ((t % NS_MIN) / NS_S) as u8, (t % NS_S) as u32);
            let built = lib!(Epoch::maybe_from_gregorian(y as i32, m as u8, d as u8, hh, mi, ss, ns, ts));
            e = match built {
                Ok(x) => x,
                Err(err) => fail!("step {} ({:?}): the valid fields {:04}-{:02}-{:02} {:02}:{:02}:{:02}.{:09} {} are rejected: {:?}", i, op, y, m, d, hh, mi, ss, ns, SCALE_NAMES[sc], err),
            };
            steps += 1;
        }
        let g = greg_of_ns1900(g1900);
        let cnt = g1900 - greg_offset_ns(sc);
        ensure!(e.time_scale == ts, "state {}: time scale {:?}, want {:?}", i, e.time_scale, ts);
        ensure!(
            count(e.duration) == cnt,
            "state {} ({}): the epoch built from the fields {} has count {}, want {} (history {:?})",
            i, SCALE_NAMES[sc], render_iso(&g), count(e.duration), cnt, c.ops
        );
        let want = format!("{} {}", render_iso(&g), SCALE_NAMES[sc]);
        let disp = lib!(format!("{e}"));
        ensure!(disp == want, "state {}: Display gives {:?}, want {:?} (history {:?})", i, disp, want, c.ops);
        let gs = lib!(e.to_gregorian_str(ts));
        ensure!(gs == want, "state {}: to_gregorian_str gives {:?}, want {:?} (history {:?})", i, gs, want, c.ops);
        // the accessors agree with the fields
        ensure!(lib!(e.year()) as i64 == g.y, "state {}: year() = {}, want {} (history {:?})", i, e.year(), g.y, c.ops);
        let mn = lib!(e.month_name());
        ensure!(format!("{mn:?}") == MONTH_LONG[(g.m - 1) as usize], "state {}: month_name() = {:?}, want {} (history {:?})", i, mn, MONTH_LONG[(g.m - 1) as usize], c.ops);
        let diy_want = g1900 - days_1900(g.y, 1, 1) as i128 * NS_D;
        let diy = lib!(e.duration_in_year());
        ensure!(count(diy) == diy_want, "state {}: duration_in_year() = {}, want {} (history {:?})", i, count(diy), diy_want, c.ops);
        let doy = lib!(e.day_of_year());
        let err = abs_err_vs_rational(doy, diy_want + NS_D, NS_D);
        ensure!(err <= 4.0 * ulp(doy.abs().max(1.0)), "state {}: day_of_year() = {}, want {} days and {} ns + 1 (history {:?})", i, doy, diy_want / NS_D, diy_want % NS_D, c.ops);
        let (yy, dd) = lib!(e.year_days_of_year());
        ensure!(yy as i64 == g.y && dd == doy, "state {}: year_days_of_year() = ({}, {}), want ({}, {}) (history {:?})", i, yy, dd, g.y, doy, c.ops);
        leap_day |= g.m == 2 && g.d == 29;
        pre_ref |= cnt < 0;
    }
    if steps == 0 {
        return Verdict::Skip("no step of the walk stayed within years 0001-9999");
    }
    let class = if leap_day { "walk-through-29-February" } else if year_jump { "walk-with-year-jump" } else if pre_ref { "walk-before-reference" } else { "plain" };
    Verdict::Pass(class, steps >= 3 && class != "plain")
}

pub fn c09_chain() -> Box<dyn DynSub> {
    sub(Sub { name: "c09.chain", source: Source::Gen(gwalk_strategy, 300_000, 3_000_000), oracle: gwalk_oracle, known: no_known, hang_is_violation: false })
}

// ================================================================== C12: sets of epochs of mixed scales

/// a set of epochs denoting instants at and around one TAI instant `x`, each held in its own scale
#[derive(Clone, Debug, Serialize, Deserialize)]
pub struct OrdSet {
    pub x: i128,
    /// (scale index into EXACT_SCALES, offset from x in ns, route by which the operand is obtained from the library)
    pub items: Vec<(usize, i128, u8)>,
}

const EXACT_SCALES: [usize; 7] = [S_TAI, S_TT, S_UTC, S_GPST, S_GST, S_BDT, S_QZSST];

fn ordset_strategy() -> BS<OrdSet> {
    let off = wunion(vec![
        (4, Just(0i128).boxed()),
        (3, prop::sample::select(vec![1i128, -1, 2, -2]).boxed()),
        (2, prop::sample::select(vec![NS_S, -NS_S, NS_S - 1, 1 - NS_S, NS_S + 1, 2 * NS_S, -2 * NS_S]).boxed()),
        (1, near_offset()),
        (1, (any::<bool>(), log_mag(66)).prop_map(|(s, m)| if s { -m } else { m }).boxed()),
    ]);
    (tai_count_any(), prop::collection::vec((0usize..7, off, 0u8..8), 2..=12)).prop_map(|(x, items)| OrdSet { x, items }).boxed()
}

fn ordset_oracle(c: &OrdSet) -> Verdict {
    use std::cmp::Ordering;
    // (instant on the TAI axis, epoch)
    let mut v: Vec<(i128, Epoch)> = vec![];
    let mut inside = false;
    for &(si, off, route) in &c.items {
        let s = EXACT_SCALES[si % 7];
        let t = c.x + off;
        let Some(cnt) = from_tai(s, t) else {
            inside = true; // a UTC operand needs a UTC count of its own
            continue;
        };
        if !(cnt > DMIN + 2 * NPC && cnt < DMAX - 2 * NPC) {
            continue;
        }
        // the operand as the library itself produces it: built from the count, or as the result of a negation, an absolute
        // value, a sum, an epoch shift, or a conversion from another exact scale (all exact by C01 / C04 / C05 / C06)
        let ts = SCALES[s];
        let e = match route {
            1 if in_open_range(-cnt) => lib!(Epoch::from_duration(-mk(-cnt), ts)),
            2 if cnt > 0 => lib!(Epoch::from_duration(mk(-cnt).abs(), ts)),
            3 => lib!(Epoch::from_duration(mk(cnt - 1) + mk(1), ts)),
            4 => lib!(Epoch::from_duration(mk(cnt - NPC), ts) + mk(NPC)),
            5 => lib!(Epoch::from_duration(mk(cnt + 7), ts) - mk(7)),
            6 | 7 => {
                let s2 = EXACT_SCALES[(si + 1 + (route as usize - 6) * 3) % 7];
                match from_tai(s2, t) {
                    Some(c2) if c2 > DMIN + 2 * NPC && c2 < DMAX - 2 * NPC => lib!(Epoch::from_duration(mk(c2), SCALES[s2]).to_time_scale(ts)),
                    _ => Epoch::from_duration(mk(cnt), ts),
                }
            }
            _ => Epoch::from_duration(mk(cnt), ts),
        };
        if e.time_scale != ts || count(e.duration) != cnt {
            return Verdict::Skip("an operand route produced another value than intended (the subject of C01 / C04 / C05 / C06, not of C12)");
        }
        v.push((t, e));
    }
    if v.len() < 2 {
        return Verdict::Skip("fewer than two operands have a count");
    }
    let desc = || format!("{:?}", v.iter().map(|(t, e)| format!("{} {} (TAI {})", SCALE_NAMES[scale_index(e.time_scale)], count(e.duration), t)).collect::<Vec<_>>());
    // all pairs, both operand orders
    for i in 0..v.len() {
        for j in 0..v.len() {
            let (ta, a) = v[i];
            let (tb, b) = v[j];
            let want = ta.cmp(&tb);
            let got = lib!(a.cmp(&b));
            ensure!(got == want, "cmp of items {} and {} gives {:?}, want {:?}: {}", i, j, got, want, desc());
            let eq = lib!(a == b);
            ensure!(eq == (want == Ordering::Equal), "== of items {} and {} gives {}, instants {}: {}", i, j, eq, if want == Ordering::Equal { "equal" } else { "differ" }, desc());
            let lt = lib!(a < b);
            ensure!(lt == (want == Ordering::Less), "< of items {} and {} gives {}: {}", i, j, lt, desc());
        }
    }
    // sorting the whole set orders the instants and keeps every item
    let sorted = lib!({
        let mut w: Vec<Epoch> = v.iter().map(|p| p.1).collect();
        w.sort();
        w
    });
    let mut model: Vec<i128> = v.iter().map(|p| p.0).collect();
    model.sort();
    let inst = |e: &Epoch| to_tai(scale_index(e.time_scale), count(e.duration));
    let got: Vec<i128> = sorted.iter().map(inst).collect();
    ensure!(got == model, "sort() orders the instants as {:?}, want {:?}: {}", got, model, desc());
    let key = |e: &Epoch| (scale_index(e.time_scale), count(e.duration));
    let (mut ka, mut kb): (Vec<_>, Vec<_>) = (sorted.iter().map(key).collect(), v.iter().map(|p| key(&p.1)).collect());
    ka.sort();
    kb.sort();
    ensure!(ka == kb, "sort() does not return the items it was given: {}", desc());
    // the extremes, and the number of distinct instants
    let mx = lib!(v.iter().map(|p| p.1).max()).unwrap();
    let mn = lib!(v.iter().map(|p| p.1).min()).unwrap();
    ensure!(inst(&mx) == *model.last().unwrap() && inst(&mn) == model[0], "max() / min() of the set denote {} / {}, want {} / {}: {}", inst(&mx), inst(&mn), model.last().unwrap(), model[0], desc());
    let distinct = lib!({
        let mut w = sorted.clone();
        w.dedup();
        w.len()
    });
    let mut md = model.clone();
    md.dedup();
    ensure!(distinct == md.len(), "after sort() and dedup() {} items are left, {} distinct instants: {}", distinct, md.len(), desc());
    // every item is found again by binary search at a position holding the same instant
    for (t, e) in &v {
        match lib!(sorted.binary_search(e)) {
            Ok(k) => ensure!(inst(&sorted[k]) == *t, "binary_search finds another instant for TAI {}: {}", t, desc()),
            Err(_) => fail!("binary_search does not find the item at TAI {} in the sorted set: {}", t, desc()),
        }
    }
    let scales: std::collections::BTreeSet<usize> = v.iter().map(|p| scale_index(p.1.time_scale)).collect();
    let class = if inside {
        "set-around-inserted-second"
    } else if md.len() < v.len() && scales.len() > 1 {
        "same-instant-in-several-scales"
    } else if scales.len() > 1 {
        "mixed-scales"
    } else {
        "plain"
    };
    Verdict::Pass(class, v.len() >= 3 && class != "plain")
}

pub fn c12_chain() -> Box<dyn DynSub> {
    sub(Sub { name: "c12.sets", source: Source::Gen(ordset_strategy, 300_000, 3_000_000), oracle: ordset_oracle, known: no_known, hang_is_violation: false })
}

//! C08 — Gregorian date -> Epoch: exact day count, valid dates accepted, invalid rejected
use crate::engine::*;
use crate::gen::*;
use crate::model::*;
use crate::{ensure, lib};
use hifitime::{is_gregorian_valid, Epoch, TimeScale};
use proptest::prelude::*;
use serde::{Deserialize, Serialize};

pub const RULE: &str = "exhaustive enumeration of every calendar day of years 0001-9999 (3 652 059 days from the model's civil-from-days) x times of day {00:00:00.0, 23:59:59.999999999, one derived from a hash of the day} x time scales (quick: one scale and one time-of-day class per day, both rotating with the day number; thorough: all nine scales x all three classes on every day), sampled years to +-30 000, the 27 leap-second days with second = 60; generated rejection cases (a valid base with one to three fields out of range); oracle = days-from-civil x 86400 s + time of day - reference; non-trivial = year < 1900, leap year, 29 February, month/year boundary day, a rejection case, or a scale other than UTC/TAI; distinct = distinct case tuples (hash set, capped per shard: lower bound)";

pub const ASSUMPTIONS: &[&str] = &[
    "calendar oracle: era-based days-from-civil / civil-from-days (harness/src/model.rs), cross-checked against each other over +-40 000 years at start-up",
    "not asserted (statement leaves them open): hour == 24, nanosecond == 1e9, 1971-12-31T23:59:60",
    "for valid second = 60 inputs only acceptance is asserted, not the count",
];

#[derive(Clone, Debug, Serialize, Deserialize)]
pub struct Valid {
    pub y: i64,
    pub m: u32,
    pub d: u32,
    pub hh: u32,
    pub mm: u32,
    pub ss: u32,
    pub ns: u32,
    pub s: usize,
    #[serde(default)]
    /// also run the convenience-constructor comparisons
    pub full: bool,
}

pub fn day_hash(day: i64, salt: u64) -> u64 {
    // splitmix64
    let mut z = (day as u64).wrapping_mul(0x9E37_79B9_7F4A_7C15).wrapping_add(salt.wrapping_mul(0xBF58_476D_1CE4_E5B9));
    z = (z ^ (z >> 30)).wrapping_mul(0xBF58_476D_1CE4_E5B9);
    z = (z ^ (z >> 27)).wrapping_mul(0x94D0_49BB_1331_11EB);
    z ^ (z >> 31)
}

pub fn tods_for(day: i64) -> [i128; 3] {
    // third class: a hashed time of day; on every other day one in which only some of the fields
    // h / min / s / ms / us / ns are non-zero, counted from midnight or back from the next midnight
    let h = day_hash(day, 1);
    let masked = crate::gen::tod_masked(1 + (day_hash(day, 4) % 63) as u8, h);
    [0, NS_D - 1, match day_hash(day, 3) % 4 { 0 => masked, 1 => NS_D - masked, _ => (h as i128) % NS_D }]
}

/// The enumeration shared by C08, C09, C16, C19: calls f(day1900, scale index, time of day, full) for the
/// (day, scale, time of day) triples of the tier. Every day of years 0001-9999 is visited in both tiers.
/// quick: one scale (rotating with the day number, 9 is coprime to every month length so each scale sees
/// every kind of day) and one time-of-day class (rotating) per day; thorough: all nine scales x all three
/// time-of-day classes on every day. `full` asks the oracle for its secondary (more expensive) checks.
pub fn enum_days(tier: Tier, shard: usize, f: &mut dyn FnMut(i64, usize, i128, bool) -> bool) {
    let (lo, hi) = day_range_0001_9999();
    let mut day = lo + shard as i64;
    while day <= hi {
        let g = greg_of_ns1900(day as i128 * NS_D);
        let boundary = g.d == 1 || g.d == month_len(g.y, g.m);
        let tods = tods_for(day);
        if tier == Tier::Thorough {
            for s in 0..9 {
                for (i, tod) in tods.iter().enumerate() {
                    if !f(day, s, *tod, boundary || (day.div_euclid(16) + i as i64) % 4 == 0) {
                        return;
                    }
                }
            }
        } else if !f(day, (day.rem_euclid(9)) as usize, tods[(day.div_euclid(9).rem_euclid(3)) as usize], boundary || day.div_euclid(16) % 8 == 0) {
            return;
        }
        day += SHARDS as i64;
    }
    // sampled years out to +-30 000 (every 97th year, every day of those years)
    let mut y = -30_000i64 + shard as i64 * 97;
    while y <= 30_000 {
        if !(1..=9999).contains(&y) {
            let start = days_1900(y, 1, 1);
            let n = if is_leap(y) { 366 } else { 365 };
            for k in 0..n {
                let day = start + k;
                let tods = tods_for(day);
                if !f(day, (day.rem_euclid(9)) as usize, tods[(day.div_euclid(9).rem_euclid(3)) as usize], day.div_euclid(16) % 8 == 0) {
                    return;
                }
            }
        }
        y += 97 * SHARDS as i64;
    }
}

fn valid_enum(tier: Tier, shard: usize, sink: &mut dyn FnMut(Valid) -> bool) {
    let mut stop = false;
    enum_days(tier, shard, &mut |day, s, tod, full| {
        let g = greg_of_ns1900(day as i128 * NS_D + tod);
        if !sink(Valid { y: g.y, m: g.m, d: g.d, hh: g.hh, mm: g.mm, ss: g.ss, ns: g.ns, s, full }) {
            stop = true;
            return false;
        }
        true
    });
    if stop {
        return;
    }
    // the 27 leap-second days with second = 60 (encoded as ss = 60), all scales, on shard 0
    if shard == 0 {
        for (i, (ts, _)) in leap_table().into_iter().enumerate() {
            if i == 0 {
                continue;
            }
            let g = greg_of_ns1900((ts as i128 - 1) * NS_S);
            for s in 0..9 {
                for ns in [0u32, 999_999_999, 500_000_000] {
                    if !sink(Valid { y: g.y, m: g.m, d: g.d, hh: 23, mm: 59, ss: 60, ns, s, full: true }) {
                        return;
                    }
                }
            }
        }
    }
}

fn valid_oracle(c: &Valid) -> Verdict {
    let ts = SCALES[c.s];
    let (y, m, d, hh, mm, ss, ns) = (c.y as i32, c.m as u8, c.d as u8, c.hh as u8, c.mm as u8, c.ss as u8, c.ns);
    let desc = format!("{}-{:02}-{:02}T{:02}:{:02}:{:02}.{:09} {}", c.y, c.m, c.d, c.hh, c.mm, c.ss, c.ns, SCALE_NAMES[c.s]);
    let r = lib!(Epoch::maybe_from_gregorian(y, m, d, hh, mm, ss, ns, ts));
    let e = match r {
        Ok(e) => e,
        Err(err) => return Verdict::Fail(format!("valid date-time {} rejected: {:?}", desc, err)),
    };
    ensure!(lib!(is_gregorian_valid(y, m, d, hh, mm, ss, ns)), "is_gregorian_valid false for {}", desc);
    ensure!(e.time_scale == ts, "time scale not preserved for {}", desc);
    if c.ss == 60 {
        return Verdict::Pass("leap-second-input", true);
    }
    let want = ns1900_of_fields(c.y, c.m, c.d, c.hh, c.mm, c.ss, c.ns) - greg_offset_ns(c.s);
    ensure!(canonical(e.duration), "non canonical");
    ensure!(count(e.duration) == want, "{}: count {} want {} (off by {} ns)", desc, count(e.duration), want, count(e.duration) - want);
    let boundary = c.d == 1 || c.d == month_len(c.y, c.m);
    let class = if c.m == 2 && c.d == 29 {
        "feb-29"
    } else if !(1..=9999).contains(&c.y) {
        "year-outside-0001-9999"
    } else if c.y < 1900 {
        "year<1900"
    } else if is_leap(c.y) {
        "leap-year"
    } else if boundary {
        "month-boundary"
    } else if c.s != S_UTC && c.s != S_TAI {
        "other-scale"
    } else {
        "plain"
    };
    if !c.full {
        return Verdict::Pass(class, class != "plain");
    }
    // convenience constructors
    let same = |f: Epoch| f.time_scale == e.time_scale && f.duration.to_parts() == e.duration.to_parts();
    ensure!(same(lib!(Epoch::from_gregorian(y, m, d, hh, mm, ss, ns, ts))), "from_gregorian differs for {}", desc);
    if ns == 0 {
        ensure!(same(lib!(Epoch::from_gregorian_hms(y, m, d, hh, mm, ss, ts))), "from_gregorian_hms differs for {}", desc);
    }
    if (hh, mm, ss, ns) == (0, 0, 0, 0) {
        ensure!(same(lib!(Epoch::from_gregorian_at_midnight(y, m, d, ts))), "from_gregorian_at_midnight differs for {}", desc);
        let noon = lib!(Epoch::from_gregorian_at_noon(y, m, d, ts));
        ensure!(count(noon.duration) == want + 12 * NS_H && noon.time_scale == ts, "from_gregorian_at_noon wrong for {}", desc);
    }
    if ts == TimeScale::UTC {
        ensure!(same(lib!(Epoch::maybe_from_gregorian_utc(y, m, d, hh, mm, ss, ns)).unwrap()), "maybe_from_gregorian_utc differs for {}", desc);
        ensure!(same(lib!(Epoch::from_gregorian_utc(y, m, d, hh, mm, ss, ns))), "from_gregorian_utc differs for {}", desc);
        if ns == 0 {
            ensure!(same(lib!(Epoch::from_gregorian_utc_hms(y, m, d, hh, mm, ss))), "from_gregorian_utc_hms differs for {}", desc);
        }
        if (hh, mm, ss, ns) == (0, 0, 0, 0) {
            ensure!(same(lib!(Epoch::from_gregorian_utc_at_midnight(y, m, d))), "from_gregorian_utc_at_midnight differs for {}", desc);
            ensure!(count(lib!(Epoch::from_gregorian_utc_at_noon(y, m, d)).duration) == want + 12 * NS_H, "from_gregorian_utc_at_noon wrong for {}", desc);
        }
    }
    if ts == TimeScale::TAI {
        ensure!(same(lib!(Epoch::maybe_from_gregorian_tai(y, m, d, hh, mm, ss, ns)).unwrap()), "maybe_from_gregorian_tai differs for {}", desc);
        ensure!(same(lib!(Epoch::from_gregorian_tai(y, m, d, hh, mm, ss, ns))), "from_gregorian_tai differs for {}", desc);
        if ns == 0 {
            ensure!(same(lib!(Epoch::from_gregorian_tai_hms(y, m, d, hh, mm, ss))), "from_gregorian_tai_hms differs for {}", desc);
        }
        if (hh, mm, ss, ns) == (0, 0, 0, 0) {
            ensure!(same(lib!(Epoch::from_gregorian_tai_at_midnight(y, m, d))), "from_gregorian_tai_at_midnight differs for {}", desc);
            ensure!(count(lib!(Epoch::from_gregorian_tai_at_noon(y, m, d)).duration) == want + 12 * NS_H, "from_gregorian_tai_at_noon wrong for {}", desc);
        }
    }
    Verdict::Pass(class, class != "plain")
}

// ---------------------------------------------------------------- generated valid date-times (any time of day)
fn valid_gen_strategy() -> BS<Valid> {
    let day = prop_oneof![4 => day_0001_9999(), 1 => (-30_000i64..=30_000, 0i64..366).prop_map(|(y, k)| days_1900(y, 1, 1) + k.min(if is_leap(y) { 365 } else { 364 }))];
    let ns1900 = prop_oneof![
        9 => (day, tod_any()).prop_map(|(day, tod)| day as i128 * NS_D + tod),
        // +-2^k ns from 1900 (+- 40 s, and up to a day later): where 64-bit nanosecond counts end
        1 => (40u32..70, any::<bool>(), prop_oneof![2 => near_offset(), 1 => (0i128..NS_D)]).prop_map(|(k, neg, off)| (if neg { -(1i128 << k) } else { 1i128 << k }) + off),
    ];
    (ns1900, 0usize..9)
        .prop_map(|(t, s)| {
            let g = greg_of_ns1900(t);
            Valid { y: g.y, m: g.m, d: g.d, hh: g.hh, mm: g.mm, ss: g.ss, ns: g.ns, s, full: true }
        })
        .boxed()
}

// ---------------------------------------------------------------- rejection
#[derive(Clone, Debug, Serialize, Deserialize)]
pub struct Reject {
    pub y: i32,
    pub m: u8,
    pub d: u8,
    pub hh: u8,
    pub mm: u8,
    pub ss: u8,
    pub ns: u32,
    pub s: usize,
}

/// true when the fields are invalid by the statement; None when the statement leaves it open
fn statement_invalid(c: &Reject) -> Option<bool> {
    let y = c.y as i64;
    if c.m == 0 || c.m > 12 {
        return Some(true);
    }
    if c.d == 0 || c.d as u32 > month_len(y, c.m as u32) {
        return Some(true);
    }
    if c.hh > 24 || c.mm > 59 || c.ss > 60 || c.ns > 1_000_000_000 {
        return Some(true);
    }
    if c.ss == 60 {
        // valid only at 23:59 on a day that immediately precedes a table entry
        let next_day_s = (days_1900(y, c.m as u32, c.d as u32) + 1) * 86_400;
        let precedes = leap_table().iter().skip(1).any(|(ts, _)| *ts == next_day_s);
        if (y, c.m, c.d) == (1971, 12, 31) && c.hh == 23 && c.mm == 59 {
            return None;
        }
        if !(precedes && c.hh == 23 && c.mm == 59) {
            return Some(true);
        }
    }
    if c.hh == 24 || c.ns == 1_000_000_000 {
        return None;
    }
    Some(false)
}

fn reject_strategy() -> BS<Reject> {
    let base = (prop_oneof![3 => day_0001_9999(), 1 => (-30_000i64..=30_000).prop_map(|y| days_1900(y, 6, 30)), 1 => (1970i64..2020, prop::sample::select(vec![(6u32, 30u32), (12, 31)])).prop_map(|(y, (m, d))| days_1900(y, m, d))], tod_any(), 0usize..9);
    let bad = prop::collection::vec((0u8..8, any::<u32>()), 1..4);
    (base, bad)
        .prop_map(|((day, tod, s), bad)| {
            let g = greg_of_ns1900(day as i128 * NS_D + tod);
            let mut c = Reject { y: g.y as i32, m: g.m as u8, d: g.d as u8, hh: g.hh as u8, mm: g.mm as u8, ss: g.ss as u8, ns: g.ns, s };
            for (k, r) in bad {
                match k {
                    0 => c.m = if r % 4 == 0 { 0 } else { 13 + (r % 243) as u8 },
                    1 => {
                        let len = month_len(c.y as i64, c.m as u32) as u8;
                        c.d = if r % 5 == 0 || len == 0 { 0 } else if r % 5 < 3 { len + 1 + (r % 3) as u8 } else { (len as u32 + 1 + r % (255 - len as u32)) as u8 };
                    }
                    2 => c.hh = 25 + (r % 231) as u8,
                    3 => c.mm = 60 + (r % 196) as u8,
                    4 => c.ss = 61 + (r % 195) as u8,
                    5 => c.ns = if r % 3 == 0 { 1_000_000_001 } else { 1_000_000_001 + r % (u32::MAX - 1_000_000_001) },
                    6 => c.ss = 60,
                    _ => {
                        // second = 60 at 23:59 on the last day of the month
                        c.ss = 60;
                        c.hh = 23;
                        c.mm = 59;
                        c.d = month_len(c.y as i64, c.m as u32).max(1) as u8;
                    }
                }
            }
            c
        })
        .boxed()
}

/// one way of building an epoch from the fields: the fields it actually receives, and the epoch it returned (None: Err or panic)
struct Route {
    name: &'static str,
    eff: Reject,
    got: Option<Epoch>,
}

/// every constructor of the family applied to the case: the three `maybe_*` forms and the panicking wrappers
/// ("If invalid date is provided, this function will panic"), each with the subset of the fields it takes
fn routes(c: &Reject) -> Vec<Route> {
    let ts = SCALES[c.s];
    let (y, m, d, hh, mm, ss, ns) = (c.y, c.m, c.d, c.hh, c.mm, c.ss, c.ns);
    let with = |hh: u8, mm: u8, ss: u8, ns: u32| Reject { hh, mm, ss, ns, ..c.clone() };
    let run = |f: &(dyn Fn() -> Option<Epoch> + std::panic::RefUnwindSafe)| guard(|| f()).ok().flatten();
    let mut v = vec![
        Route { name: "maybe_from_gregorian", eff: c.clone(), got: run(&move || Epoch::maybe_from_gregorian(y, m, d, hh, mm, ss, ns, ts).ok()) },
        Route { name: "from_gregorian", eff: c.clone(), got: run(&move || Some(Epoch::from_gregorian(y, m, d, hh, mm, ss, ns, ts))) },
        Route { name: "from_gregorian_hms", eff: with(hh, mm, ss, 0), got: run(&move || Some(Epoch::from_gregorian_hms(y, m, d, hh, mm, ss, ts))) },
        Route { name: "from_gregorian_at_midnight", eff: with(0, 0, 0, 0), got: run(&move || Some(Epoch::from_gregorian_at_midnight(y, m, d, ts))) },
        Route { name: "from_gregorian_at_noon", eff: with(12, 0, 0, 0), got: run(&move || Some(Epoch::from_gregorian_at_noon(y, m, d, ts))) },
    ];
    // the text route, when the fields can be written as YYYY-MM-DDTHH:MM:SS.fffffffff
    if (0..=9999).contains(&y) && m <= 99 && d <= 99 && hh <= 99 && mm <= 99 && ss <= 99 && ns <= 999_999_999 {
        let txt = format!("{:04}-{:02}-{:02}T{:02}:{:02}:{:02}.{:09} {}", y, m, d, hh, mm, ss, ns, SCALE_NAMES[c.s]);
        v.push(Route { name: "from_gregorian_str", eff: c.clone(), got: run(&move || Epoch::from_gregorian_str(&txt).ok()) });
    }
    // and the routes that spell the month by name (upper-case three-letter and lower-case full name), UTC only
    if ts == TimeScale::UTC && (1..=12).contains(&m) && (0..=9999).contains(&y) && d <= 99 && hh <= 99 && mm <= 99 && ss <= 99 {
        let short = format!("{:02} {} {:04} {:02}:{:02}:{:02}", d, MONTH_SHORT[(m - 1) as usize].to_uppercase(), y, hh, mm, ss);
        v.push(Route { name: "from_format_str(%d %b %Y %H:%M:%S)", eff: with(hh, mm, ss, 0), got: run(&move || Epoch::from_format_str(&short, "%d %b %Y %H:%M:%S").ok()) });
        let long = format!("{:02} {} {:04} {:02}:{:02}:{:02}", d, MONTH_LONG[(m - 1) as usize].to_lowercase(), y, hh, mm, ss);
        v.push(Route { name: "from_format_str(%d %B %Y %H:%M:%S)", eff: with(hh, mm, ss, 0), got: run(&move || Epoch::from_format_str(&long, "%d %B %Y %H:%M:%S").ok()) });
    }
    if ts == TimeScale::UTC {
        v.push(Route { name: "maybe_from_gregorian_utc", eff: c.clone(), got: run(&move || Epoch::maybe_from_gregorian_utc(y, m, d, hh, mm, ss, ns).ok()) });
        v.push(Route { name: "from_gregorian_utc", eff: c.clone(), got: run(&move || Some(Epoch::from_gregorian_utc(y, m, d, hh, mm, ss, ns))) });
        v.push(Route { name: "from_gregorian_utc_hms", eff: with(hh, mm, ss, 0), got: run(&move || Some(Epoch::from_gregorian_utc_hms(y, m, d, hh, mm, ss))) });
        v.push(Route { name: "from_gregorian_utc_at_midnight", eff: with(0, 0, 0, 0), got: run(&move || Some(Epoch::from_gregorian_utc_at_midnight(y, m, d))) });
        v.push(Route { name: "from_gregorian_utc_at_noon", eff: with(12, 0, 0, 0), got: run(&move || Some(Epoch::from_gregorian_utc_at_noon(y, m, d))) });
    }
    if ts == TimeScale::TAI {
        v.push(Route { name: "maybe_from_gregorian_tai", eff: c.clone(), got: run(&move || Epoch::maybe_from_gregorian_tai(y, m, d, hh, mm, ss, ns).ok()) });
        v.push(Route { name: "from_gregorian_tai", eff: c.clone(), got: run(&move || Some(Epoch::from_gregorian_tai(y, m, d, hh, mm, ss, ns))) });
        v.push(Route { name: "from_gregorian_tai_hms", eff: with(hh, mm, ss, 0), got: run(&move || Some(Epoch::from_gregorian_tai_hms(y, m, d, hh, mm, ss))) });
        v.push(Route { name: "from_gregorian_tai_at_midnight", eff: with(0, 0, 0, 0), got: run(&move || Some(Epoch::from_gregorian_tai_at_midnight(y, m, d))) });
        v.push(Route { name: "from_gregorian_tai_at_noon", eff: with(12, 0, 0, 0), got: run(&move || Some(Epoch::from_gregorian_tai_at_noon(y, m, d))) });
    }
    v
}

fn reject_known(c: &Reject) -> Option<&'static str> {
    if !(c.m == 2 && is_leap(c.y as i64) && (c.d == 30 || c.d == 31)) {
        return None;
    }
    // every route that wrongly returns a value must do so in exactly the way the finding predicts: the day is the
    // only invalid field among those the route receives, and the value is the same time on 1 / 2 March
    let ts = SCALES[c.s];
    for r in routes(c) {
        if statement_invalid(&r.eff) != Some(true) {
            continue;
        }
        if let Some(e) = r.got {
            let mut other = r.eff.clone();
            other.d = 29;
            if statement_invalid(&other) == Some(true) {
                return None;
            }
            let f = r.eff.clone();
            match guard(move || Epoch::maybe_from_gregorian(f.y, 3, f.d - 29, f.hh, f.mm, f.ss, f.ns, ts)) {
                Ok(Ok(b)) if e.duration.to_parts() == b.duration.to_parts() && e.time_scale == b.time_scale => {}
                _ => return None,
            }
        }
    }
    // is_gregorian_valid takes all the fields
    let mut other = c.clone();
    other.d = 29;
    let cc = c.clone();
    if matches!(guard(move || is_gregorian_valid(cc.y, cc.m, cc.d, cc.hh, cc.mm, cc.ss, cc.ns)), Ok(true)) && statement_invalid(&other) == Some(true) {
        return None;
    }
    Some("KF-feb30-leap-year")
}

fn reject_oracle(c: &Reject) -> Verdict {
    let desc = format!("{}-{:02}-{:02}T{:02}:{:02}:{:02}.{:09} {}", c.y, c.m, c.d, c.hh, c.mm, c.ss, c.ns, SCALE_NAMES[c.s]);
    let v = lib!(is_gregorian_valid(c.y, c.m, c.d, c.hh, c.mm, c.ss, c.ns));
    match statement_invalid(c) {
        Some(true) => {
            ensure!(!v, "is_gregorian_valid true for invalid {}", desc);
            // "returns an error, never a shifted date": no route may return a value for fields that are invalid
            for r in routes(c) {
                if statement_invalid(&r.eff) == Some(true) {
                    ensure!(r.got.is_none(), "{} returns {} for the invalid date-time {} (fields it receives: {:?})", r.name, r.got.map(|e| format!("{e}")).unwrap_or_default(), desc, (r.eff.y, r.eff.m, r.eff.d, r.eff.hh, r.eff.mm, r.eff.ss, r.eff.ns));
                }
            }
            let class = if c.ss == 60 { "reject-second-60" } else if c.m == 2 { "reject-february" } else { "reject" };
            Verdict::Pass(class, true)
        }
        Some(false) => {
            let ts = SCALES[c.s];
            let r = lib!(Epoch::maybe_from_gregorian(c.y, c.m, c.d, c.hh, c.mm, c.ss, c.ns, ts));
            ensure!(r.is_ok() && v, "valid date-time {} rejected", desc);
            // every route accepts it and builds the same epoch
            let want = r.unwrap();
            for rt in routes(c) {
                if rt.eff.hh == c.hh && rt.eff.mm == c.mm && rt.eff.ss == c.ss && rt.eff.ns == c.ns {
                    ensure!(matches!(rt.got, Some(e) if e.duration.to_parts() == want.duration.to_parts() && e.time_scale == want.time_scale), "{} gives {:?} for the valid date-time {}, maybe_from_gregorian gives {}", rt.name, rt.got.map(|e| format!("{e}")), desc, want);
                }
            }
            Verdict::Pass("valid-after-mutation", true)
        }
        None => Verdict::Skip("statement leaves hour 24 / ns 1e9 / 1971-12-31T23:59:60 open"),
    }
}

// ---------------------------------------------------------------- second = 60: every month end 1960-2030 (exhaustive)
fn leap60_enum(_t: Tier, shard: usize, sink: &mut dyn FnMut(Reject) -> bool) {
    // second = 60 on days at and around every month end 1958-2040, at hours and minutes at and away from 23:59
    // (hour 24 included: 24:59:60 is no time of day), with and without a fraction
    let mut i = 0usize;
    for y in 1958..=2040i32 {
        for m in 1..=12u8 {
            let last = month_len(y as i64, m as u32) as u8;
            for d in [1, 15, last - 2, last - 1, last] {
                for hh in [0u8, 12, 22, 23, 24] {
                    for mm in [0u8, 58, 59] {
                        for ns in [0u32, 999_999_999, 1_000_000_001] {
                            i += 1;
                            if i % SHARDS == shard && !sink(Reject { y, m, d, hh, mm, ss: 60, ns, s: i % 9 }) {
                                return;
                            }
                        }
                    }
                }
            }
        }
    }
}

// ---------------------------------------------------------------- the first calls of the process (enumerated, run first)
/// Dates whose year, day count or every field is zero-like, built before anything else in the process has built a date
/// (the runner runs `*.first_calls` sub-checks before the witnesses and every other sub-check, on one thread): a
/// zero-initialised memo or a lazily filled table shows on its first use, and on the keys that look like "empty"
fn first_calls_enum(_t: Tier, shard: usize, sink: &mut dyn FnMut(Valid) -> bool) {
    if shard != 0 {
        return;
    }
    for (y, m, d) in [(0i64, 3u32, 1u32), (0, 1, 1), (0, 12, 31), (1, 1, 1), (-1, 12, 31), (1900, 1, 1), (4, 2, 29), (2000, 2, 29), (1899, 12, 31)] {
        for s in [S_TAI, S_UTC, S_GPST] {
            if !sink(Valid { y, m, d, hh: 0, mm: 0, ss: 0, ns: 0, s, full: true }) {
                return;
            }
        }
    }
}

pub fn subs() -> Vec<Box<dyn DynSub>> {
    vec![
        sub(Sub { name: "c08.first_calls", source: Source::Enum(first_calls_enum, |_| true), oracle: valid_oracle, known: no_known, hang_is_violation: false }),
        sub(Sub { name: "c08.all_days", source: Source::Enum(valid_enum, |_| true), oracle: valid_oracle, known: no_known, hang_is_violation: false }),
        sub(Sub { name: "c08.generated_times", source: Source::Gen(valid_gen_strategy, 800_000, 20_000_000), oracle: valid_oracle, known: no_known, hang_is_violation: false }),
        sub(Sub { name: "c08.second_60", source: Source::Enum(leap60_enum, |_| true), oracle: reject_oracle, known: reject_known, hang_is_violation: false }),
        sub(Sub { name: "c08.rejection", source: Source::Gen(reject_strategy, 800_000, 12_000_000), oracle: reject_oracle, known: reject_known, hang_is_violation: false }),
        crate::props::fuzzsub::fc08(),
    ]
}

//! C09 — Epoch -> Gregorian fields exactly inverts construction; Display prints them
use crate::engine::*;
use crate::gen::*;
use crate::model::*;
use crate::props::c08::enum_days;
use crate::{ensure, lib};
use hifitime::{Epoch, TimeScale};
use proptest::prelude::*;
use serde::{Deserialize, Serialize};

pub const RULE: &str = "exhaustive enumeration of every calendar day of years 0001-9999 x times of day {first ns, last ns, one derived from a hash of the day} x scales (quick: one scale and one time-of-day class per day, both rotating with the day number; thorough: all nine scales x all three classes on every day), sampled years to +-30 000, plus generated instants with time-of-day classes (first/last us, uniform); the epoch is built from the MODEL count (from_duration), rendered by the library and compared with the model's rendering of civil-from-days; non-trivial = time of day within 1 us of midnight, year outside 1900-2100, negative count, or a day adjacent to a leap day / year boundary; distinct = distinct case tuples (hash set, capped per shard: lower bound); calendar walks (c09.chain): non-trivial = at least three jumps and a 29 February, a jump of whole years, or a state before the scale's reference epoch";

pub const ASSUMPTIONS: &[&str] = &[
    "the epoch under test is built with Epoch::from_duration from the model's count, so C09 does not depend on C08's constructor (which is only used for the feed-back identity)",
    "{:?} {:x} {:X} and to_gregorian_utc/tai are compared with the model only when source and target are uniform scales or UTC (exact conversions); for ET/TDB involvement they are compared with Display of the library's own to_time_scale result (conversion accuracy is C07's)",
    "TAI instants inside an inserted leap second are skipped where a UTC rendering is needed",
];

#[derive(Clone, Debug, Serialize, Deserialize)]
pub struct Inst {
    /// ns since 1900-01-01T00:00:00 in the scale's own calendar
    pub g: i128,
    pub s: usize,
    #[serde(default)]
    /// also check the secondary views ({:?} {:x} {:X} {:e} {:E}, tuples, rfc3339)
    pub full: bool,
}

fn inst_enum(tier: Tier, shard: usize, sink: &mut dyn FnMut(Inst) -> bool) {
    enum_days(tier, shard, &mut |day, s, tod, full| sink(Inst { g: day as i128 * NS_D + tod, s, full }));
}

fn inst_strategy() -> BS<Inst> {
    let g = wunion(vec![
        (5, ns1900_0001_9999()),
        // exact noon, midnight and whole seconds (the convenience constructors' domain)
        (2, (day_0001_9999(), prop::sample::select(vec![0i128, 12 * NS_H, 43_199 * NS_S, 86_399 * NS_S])).prop_map(|(d, t)| d as i128 * NS_D + t).boxed()),
        (1, (-30_000i64..=30_000, 0i64..365, tod_any()).prop_map(|(y, k, t)| (days_1900(y, 1, 1) + k) as i128 * NS_D + t).boxed()),
        // around each scale's reference and 1900
        (1, (0usize..9, near_offset()).prop_map(|(s, off)| greg_offset_ns(s) + off).boxed()),
        (1, near_offset()),
        // +-2^k ns from 1900 (+- 40 s, and up to a day later): where 64-bit nanosecond counts end
        (1, (40u32..70, any::<bool>(), prop_oneof![2 => near_offset(), 1 => (0i128..NS_D)]).prop_map(|(k, neg, off)| (if neg { -(1i128 << k) } else { 1i128 << k }) + off).boxed()),
    ]);
    let free = (g, 0usize..9).prop_map(|(g, s)| Inst { g, s, full: true }).boxed();
    // instants that read as whole seconds (or whole milliseconds) in ANOTHER scale: the views print them without a
    // fraction while the epoch's own reading has one (e.g. a TAI reading ending in .816 is a whole second of TT)
    let round_elsewhere = (day_0001_9999(), 0i128..86_400, prop_oneof![3 => Just(0i128), 1 => (0i128..1000).prop_map(|ms| ms * 1_000_000)], prop::sample::select(vec![S_TAI, S_TT, S_UTC, S_GPST, S_BDT]), 0usize..9)
        .prop_map(|(day, sec, frac, axis, s)| {
            let on_axis = day as i128 * NS_D + sec * NS_S + frac - greg_offset_ns(axis);
            let tai = to_tai(axis, on_axis);
            let cnt = from_tai(s, tai).unwrap_or(tai);
            Inst { g: cnt + greg_offset_ns(s), s, full: true }
        })
        .boxed();
    wunion(vec![(8, free), (1, round_elsewhere)])
}

fn exact(s: usize) -> bool {
    s != S_ET && s != S_TDB
}

fn month_name_str(m: hifitime::MonthName) -> String {
    format!("{m:?}")
}

fn inst_oracle(c: &Inst) -> Verdict {
    let cnt = c.g - greg_offset_ns(c.s);
    if !(cnt > DMIN + NPC && cnt < DMAX - NPC) {
        return Verdict::Skip("a bound would be hit");
    }
    let ts = SCALES[c.s];
    let e = Epoch::from_duration(mk(cnt), ts);
    let g = greg_of_ns1900(c.g);
    let iso = render_iso(&g);
    let want = format!("{} {}", iso, SCALE_NAMES[c.s]);
    let disp = lib!(format!("{e}"));
    ensure!(disp == want, "Display of {} count {}: got {:?}, want {:?}", SCALE_NAMES[c.s], cnt, disp, want);
    // feed the printed fields back
    if (i32::MIN as i64..=i32::MAX as i64).contains(&g.y) {
        let back = lib!(Epoch::maybe_from_gregorian(g.y as i32, g.m as u8, g.d as u8, g.hh as u8, g.mm as u8, g.ss as u8, g.ns, ts));
        match back {
            Ok(b) => ensure!(b.time_scale == ts && b.duration.to_parts() == e.duration.to_parts(), "fields {} fed back give count {}, want {}", want, count(b.duration), cnt),
            Err(err) => return Verdict::Fail(format!("fields {} fed back are rejected: {:?}", want, err)),
        }
    }
    // ... and through the convenience constructors that fit these fields
    if c.full && (i32::MIN as i64..=i32::MAX as i64).contains(&g.y) {
        let (y, m, d, hh, mm, ss) = (g.y as i32, g.m as u8, g.d as u8, g.hh as u8, g.mm as u8, g.ss as u8);
        let same = |b: Epoch| b.time_scale == ts && b.duration.to_parts() == e.duration.to_parts();
        ensure!(same(lib!(Epoch::from_gregorian(y, m, d, hh, mm, ss, g.ns, ts))), "from_gregorian of the fields {} differs", want);
        if g.ns == 0 {
            ensure!(same(lib!(Epoch::from_gregorian_hms(y, m, d, hh, mm, ss, ts))), "from_gregorian_hms of the fields {} differs", want);
            if (hh, mm, ss) == (0, 0, 0) {
                ensure!(same(lib!(Epoch::from_gregorian_at_midnight(y, m, d, ts))), "from_gregorian_at_midnight of the fields {} differs", want);
            }
            if (hh, mm, ss) == (12, 0, 0) {
                ensure!(same(lib!(Epoch::from_gregorian_at_noon(y, m, d, ts))), "from_gregorian_at_noon of the fields {} differs", want);
            }
        }
        if c.s == S_UTC {
            ensure!(same(lib!(Epoch::from_gregorian_utc(y, m, d, hh, mm, ss, g.ns))), "from_gregorian_utc of the fields {} differs", want);
            if g.ns == 0 && (hh, mm, ss) == (12, 0, 0) {
                ensure!(same(lib!(Epoch::from_gregorian_utc_at_noon(y, m, d))), "from_gregorian_utc_at_noon differs");
            }
        }
        if c.s == S_TAI {
            ensure!(same(lib!(Epoch::from_gregorian_tai(y, m, d, hh, mm, ss, g.ns))), "from_gregorian_tai of the fields {} differs", want);
            if g.ns == 0 && (hh, mm, ss) == (12, 0, 0) {
                ensure!(same(lib!(Epoch::from_gregorian_tai_at_noon(y, m, d))), "from_gregorian_tai_at_noon differs");
            }
        }
    }
    // accessors
    ensure!(lib!(e.year()) as i64 == g.y, "year() = {}, want {}", e.year(), g.y);
    let tod = c.g.rem_euclid(NS_D);
    let near_midnight = tod < 1000 || tod >= NS_D - 1000;
    let doy_i = day_of_year(&g);
    let class = if near_midnight {
        "within-1us-of-midnight"
    } else if !(1900..=2100).contains(&g.y) {
        "year-outside-1900-2100"
    } else if cnt < 0 {
        "negative-count"
    } else if doy_i <= 1 || doy_i >= 365 || (g.m == 2 && g.d >= 28) || (g.m == 3 && g.d == 1) {
        "leap-day/year-boundary"
    } else {
        "plain"
    };
    if !c.full {
        return Verdict::Pass(class, class != "plain");
    }
    // secondary views
    let diy_want = c.g - days_1900(g.y, 1, 1) as i128 * NS_D;
    let diy = lib!(e.duration_in_year());
    ensure!(count(diy) == diy_want, "duration_in_year() = {}, want {}", count(diy), diy_want);
    let gs = lib!(e.to_gregorian_str(ts));
    ensure!(gs == want, "to_gregorian_str(own scale): got {:?}, want {:?}", gs, want);
    let mn = lib!(e.month_name());
    ensure!(month_name_str(mn) == MONTH_LONG[(g.m - 1) as usize], "month_name() = {:?}, want {}", mn, MONTH_LONG[(g.m - 1) as usize]);
    let doy = lib!(e.day_of_year());
    let err = abs_err_vs_rational(doy, diy_want + NS_D, NS_D);
    ensure!(err <= 4.0 * ulp(doy.abs().max(1.0)), "day_of_year() = {}, exact {} + 1 days (error {:e})", doy, ns_to_s(diy_want) / 86400.0, err);
    let (yy, dd) = lib!(e.year_days_of_year());
    ensure!(yy as i64 == g.y && dd == doy, "year_days_of_year inconsistent");
    // tuples and the other renderings
    let tai = to_tai(c.s, cnt);
    // UTC view
    let utc_view: Option<String> = if exact(c.s) {
        match from_tai(S_UTC, tai) {
            Some(u) => Some(render_iso(&greg_of_ns1900(u))),
            None => None,
        }
    } else {
        let u = lib!(e.to_time_scale(TimeScale::UTC));
        Some(render_iso(&greg_of_ns1900(count(u.duration))))
    };
    if let Some(uv) = &utc_view {
        let dbg = lib!(format!("{e:?}"));
        ensure!(dbg == format!("{} UTC", uv), "{{:?}} of {}: got {:?}, want {:?}", want, dbg, format!("{} UTC", uv));
        let t = lib!(e.to_gregorian_utc());
        let gu = if exact(c.s) { greg_of_ns1900(from_tai(S_UTC, tai).unwrap()) } else { greg_of_ns1900(count(lib!(e.to_time_scale(TimeScale::UTC)).duration)) };
        ensure!(
            (t.0 as i64, t.1 as u32, t.2 as u32, t.3 as u32, t.4 as u32, t.5 as u32, t.6) == (gu.y, gu.m, gu.d, gu.hh, gu.mm, gu.ss, gu.ns),
            "to_gregorian_utc of {}: got {:?}, want {:?}", want, t, gu
        );
        ensure!(t.3 < 24 && t.4 < 60 && t.5 < 60 && t.6 < 1_000_000_000, "field out of range in {:?}", t);
        // RFC 3339 rendering is the UTC view with +00:00
        let r = lib!(e.to_rfc3339());
        ensure!(r == format!("{}+00:00", uv), "to_rfc3339: got {:?}, want {:?}", r, format!("{}+00:00", uv));
    }
    // an instant inside an inserted leap second has no UTC count of its own, but whatever UTC fields and text the
    // library gives for it are valid ones: second < 60 (the statement's first clause), and they parse
    if utc_view.is_none() {
        let t = lib!(e.to_gregorian_utc());
        ensure!(t.1 >= 1 && t.1 <= 12 && t.2 >= 1 && t.2 <= 31 && t.3 < 24 && t.4 < 60 && t.5 < 60 && t.6 < 1_000_000_000, "to_gregorian_utc of {} (inside an inserted leap second) has a field out of range: {:?}", want, t);
        let txt = lib!(e.to_gregorian_str(TimeScale::UTC));
        let sec: u32 = txt.get(17..19).and_then(|x| x.parse().ok()).unwrap_or(99);
        ensure!(sec < 60, "to_gregorian_str(UTC) of {} (inside an inserted leap second) is {:?}: second {} is not below 60", want, txt, sec);
    }
    // Gregorian string in another scale (exact conversions only): rendering of the converted count
    if exact(c.s) {
        let others = [S_TAI, S_TT, S_UTC, S_GPST, S_GST, S_BDT, S_QZSST];
        let o = others[(c.g.rem_euclid(7)) as usize];
        if let Some(c2) = from_tai(o, tai) {
            let got = lib!(e.to_gregorian_str(SCALES[o]));
            let wanted = format!("{} {}", render_iso(&greg_of_ns1900(c2 + greg_offset_ns(o))), SCALE_NAMES[o]);
            ensure!(got == wanted, "to_gregorian_str({}) of {}: got {:?}, want {:?}", SCALE_NAMES[o], want, got, wanted);
        }
    }
    // TAI and TT views
    let (tai_cnt, tt_cnt) = if exact(c.s) {
        (tai, tai + 32_184_000_000)
    } else {
        (count(lib!(e.to_time_scale(TimeScale::TAI)).duration), count(lib!(e.to_time_scale(TimeScale::TT)).duration))
    };
    let x = lib!(format!("{e:x}"));
    ensure!(x == format!("{} TAI", render_iso(&greg_of_ns1900(tai_cnt))), "{{:x}} of {}: got {:?}", want, x);
    let xx = lib!(format!("{e:X}"));
    ensure!(xx == format!("{} TT", render_iso(&greg_of_ns1900(tt_cnt))), "{{:X}} of {}: got {:?}", want, xx);
    let tt = lib!(e.to_gregorian_tai());
    let gt = greg_of_ns1900(tai_cnt);
    ensure!(
        (tt.0 as i64, tt.1 as u32, tt.2 as u32, tt.3 as u32, tt.4 as u32, tt.5 as u32, tt.6) == (gt.y, gt.m, gt.d, gt.hh, gt.mm, gt.ss, gt.ns),
        "to_gregorian_tai of {}: got {:?}, want {:?}", want, tt, gt
    );
    // {:e} {:E}: Display of the library's own conversion
    let le = lib!(format!("{e:e}"));
    let tdb = lib!(e.to_time_scale(TimeScale::TDB));
    ensure!(le == format!("{} TDB", render_iso(&greg_of_ns1900(count(tdb.duration) + greg_offset_ns(S_TDB)))), "{{:e}} of {}: got {:?}", want, le);
    let ue = lib!(format!("{e:E}"));
    let et = lib!(e.to_time_scale(TimeScale::ET));
    ensure!(ue == format!("{} ET", render_iso(&greg_of_ns1900(count(et.duration) + greg_offset_ns(S_ET)))), "{{:E}} of {}: got {:?}", want, ue);

    // the Gregorian string asked in ET / TDB is the text form of the library's own conversion (and the other way round
    // for ET / TDB epochs asked in a uniform scale): no rounding on the way
    {
        ensure!(lib!(e.to_gregorian_str(TimeScale::TDB)) == le && lib!(e.to_gregorian_str(TimeScale::ET)) == ue, "to_gregorian_str(TDB / ET) of {} = {:?} / {:?}, want the {{:e}} / {{:E}} forms {:?} / {:?}", want, e.to_gregorian_str(TimeScale::TDB), e.to_gregorian_str(TimeScale::ET), le, ue);
        if !exact(c.s) {
            let gs_tai = lib!(e.to_gregorian_str(TimeScale::TAI));
            ensure!(gs_tai == x, "to_gregorian_str(TAI) of {} = {:?}, want the {{:x}} form {:?}", want, gs_tai, x);
        }
    }
    Verdict::Pass(class, class != "plain")
}

// ---------------------------------------------------------------- the first calls of the process (enumerated, run first)
fn first_calls_enum(_t: Tier, shard: usize, sink: &mut dyn FnMut(Inst) -> bool) {
    if shard != 0 {
        return;
    }
    // zero-like instants first (count 0, year 0, the reference epochs), then a late-December / early-March pair
    for (y, m, d) in [(1900i64, 1u32, 1u32), (0, 1, 1), (0, 12, 31), (1, 1, 1), (2024, 12, 25), (2024, 3, 1), (1980, 1, 6), (2000, 1, 1)] {
        for s in [S_TAI, S_UTC, S_GPST, S_TDB] {
            if !sink(Inst { g: days_1900(y, m, d) as i128 * NS_D, s, full: true }) {
                return;
            }
        }
    }
}

pub fn subs() -> Vec<Box<dyn DynSub>> {
    vec![
        sub(Sub { name: "c09.first_calls", source: Source::Enum(first_calls_enum, |_| true), oracle: inst_oracle, known: no_known, hang_is_violation: false }),
        sub(Sub { name: "c09.all_days", source: Source::Enum(inst_enum, |_| true), oracle: inst_oracle, known: no_known, hang_is_violation: false }),
        sub(Sub { name: "c09.generated", source: Source::Gen(inst_strategy, 600_000, 10_000_000), oracle: inst_oracle, known: no_known, hang_is_violation: false }),
        crate::props::chain::c09_chain(),
        crate::props::fuzzsub::fc09(),
    ]
}

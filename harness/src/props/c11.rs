//! C11 — Duration decomposition and text form are exact and parse back identically
use crate::engine::*;
use crate::gen::*;
use crate::model::*;
use crate::{ensure, lib};
use hifitime::{Duration, Epoch, TimeScale, Unit};
use proptest::prelude::*;
use serde::{Deserialize, Serialize};
use std::str::FromStr;

pub const RULE: &str = "generated durations of either sign up to 10 000 years (half snapped to a multiple of a unit +- a few ns, a quarter beyond 104 days) (one case in eleven over the whole representable range) for decomposition, Display, from_str(Display) and the serde round trip; model-generated text: 1-7 'value unit' groups in descending unit order over every spelling of the parser's table with integer and decimal values; [+-]HH:MM[:SS] and [+-]HHMM[SS] offsets; the spellings table enumerated exhaustively; oracle = integer decomposition of the i128 count and its rendering, sum of trunc(fl(value x unit)) per group for parsed text; non-trivial = |count| > 104 days, within 3 ns of a multiple of a unit >= 1 s, negative, or a parse case with >= 3 groups or a fractional value; distinct = distinct case tuples (hash set, capped: lower bound)";

pub const ASSUMPTIONS: &[&str] = &[
    "the sign returned by decompose() is only required to be negative exactly for negative durations (the suite pins 0 for positive durations below one century)",
    "parsed decimal values denote the correctly rounded f64 of the decimal string, then C18's semantics per group (one IEEE multiplication, truncation to ns)",
    "unit groups are generated once per unit, in descending order, separated by single spaces, with an optional leading '-'",
];

fn decompose_model(mag: i128) -> [i128; 7] {
    let mut r = mag;
    let d = r / NS_D;
    r %= NS_D;
    let h = r / NS_H;
    r %= NS_H;
    let m = r / NS_MIN;
    r %= NS_MIN;
    let s = r / NS_S;
    r %= NS_S;
    let ms = r / 1_000_000;
    r %= 1_000_000;
    let us = r / 1_000;
    [d, h, m, s, ms, us, r % 1_000]
}

pub fn display_model(cnt: i128) -> String {
    if cnt == 0 {
        return "0 ns".to_string();
    }
    let f = decompose_model(cnt.abs());
    let units = [if f[0] > 1 { "days" } else { "day" }, "h", "min", "s", "ms", "μs", "ns"];
    let mut out = String::new();
    if cnt < 0 {
        out.push('-');
    }
    let mut first = true;
    for i in 0..7 {
        if f[i] > 0 {
            if !first {
                out.push(' ');
            }
            out.push_str(&format!("{} {}", f[i], units[i]));
            first = false;
        }
    }
    out
}

// ---------------------------------------------------------------- decomposition + display + round trips
#[derive(Clone, Debug, Serialize, Deserialize)]
pub struct Dec {
    pub c: i128,
}

fn dec_strategy() -> BS<Dec> {
    wunion(vec![
        (6, count_human()),
        // the whole representable range: the bounds, far centuries, powers of two
        (1, count_any().prop_map(clamp).boxed()),
        // exact multiples of a century (and of 36525 days) +- a few ns, either sign
        (1, (-100i128..=100, small_delta(2)).prop_map(|(k, d)| k * NPC + d).boxed()),
        // short negative forms whose text has a sign followed by two digits and a unit
        (2, (1i128..1000, 0usize..7, any::<bool>()).prop_map(|(k, u, neg)| { let v = k * [NS_D, NS_H, NS_MIN, NS_S, 1_000_000, 1_000, 1][u]; if neg { -v } else { v } }).boxed()),
        // exactly two fields
        (1, (1i128..1000, 1i128..1000, 0usize..7, 0usize..7, any::<bool>()).prop_map(|(a, b, u, v, neg)| { let w = [NS_D, NS_H, NS_MIN, NS_S, 1_000_000, 1_000, 1]; let x = a * w[u] + b * w[v]; if neg { -x } else { x } }).boxed()),
    ])
    .prop_map(|c| Dec { c })
    .boxed()
}

pub fn dec_oracle(c: &Dec) -> Verdict {
    let d = mk(c.c);
    let cnt = count(d);
    let (sign, days, h, m, s, ms, us, ns) = lib!(d.decompose());
    ensure!((sign < 0) == (cnt < 0), "decompose sign {} for count {}", sign, cnt);
    let f = decompose_model(cnt.abs());
    let got = [days as i128, h as i128, m as i128, s as i128, ms as i128, us as i128, ns as i128];
    ensure!(h < 24 && m < 60 && s < 60 && ms < 1000 && us < 1000 && ns < 1000, "decompose of {} has a field out of range: {:?}", cnt, got);
    let w = [NS_D, NS_H, NS_MIN, NS_S, 1_000_000, 1_000, 1];
    let sum: i128 = (0..7).map(|i| got[i] * w[i]).sum();
    ensure!(sum == cnt.abs(), "decompose of {}: fields {:?} sum to {}, want {}", cnt, got, sum, cnt.abs());
    ensure!(got == f, "decompose of {}: {:?}, want {:?}", cnt, got, f);
    // subdivision
    for (i, u) in [(0usize, Unit::Day), (1, Unit::Hour), (2, Unit::Minute), (3, Unit::Second), (4, Unit::Millisecond), (5, Unit::Microsecond), (6, Unit::Nanosecond)] {
        let sd = lib!(d.subdivision(u));
        ensure!(sd.map(count) == Some(f[i] * w[i]), "subdivision({:?}) of {} = {:?}, want {}", u, cnt, sd.map(count), f[i] * w[i]);
    }
    ensure!(lib!(d.subdivision(Unit::Week)).is_none() && lib!(d.subdivision(Unit::Century)).is_none(), "subdivision(Week/Century) should be None");
    // Epoch accessors expose the decomposition of the epoch's count
    let e = Epoch::from_duration(d, TimeScale::TAI);
    let acc = [lib!(e.hours()) as i128, lib!(e.minutes()) as i128, lib!(e.seconds()) as i128, lib!(e.milliseconds()) as i128, lib!(e.microseconds()) as i128, lib!(e.nanoseconds()) as i128];
    ensure!(acc[..] == f[1..], "Epoch::hours()..nanoseconds() = {:?}, want {:?}", acc, &f[1..]);
    // display
    let txt = lib!(format!("{d}"));
    let want = display_model(cnt);
    ensure!(txt == want, "Display of {}: got {:?}, want {:?}", cnt, txt, want);
    // parse back
    let back = lib!(Duration::from_str(&txt));
    match back {
        Ok(b) => ensure!(b.to_parts() == d.to_parts(), "from_str({:?}) = count {}, want {}", txt, count(b), cnt),
        Err(e) => return Verdict::Fail(format!("from_str({:?}) fails: {:?}", txt, e)),
    }
    // the text form requested with sign / width / fill / alignment flags is still the human-readable form:
    // it parses back to the identical duration (padding around it apart)
    for (flag, t) in [("{:+}", lib!(format!("{d:+}"))), ("{:4}", lib!(format!("{d:4}"))), ("{:08}", lib!(format!("{d:08}"))), ("{:>40}", lib!(format!("{d:>40}"))), ("{:<40}", lib!(format!("{d:<40}"))), ("{:^+9}", lib!(format!("{d:^+9}")))] {
        match lib!(Duration::from_str(t.trim())) {
            Ok(b) => ensure!(b.to_parts() == d.to_parts(), "the text form with {} is {:?}, which parses back as count {}, want {}", flag, t, count(b), cnt),
            Err(e) => return Verdict::Fail(format!("the text form with {} is {:?}, which does not parse back: {:?}", flag, t, e)),
        }
    }
    // serde
    let js = lib!(serde_json::to_string(&d));
    match js {
        Ok(j) => {
            ensure!(j == format!("\"{}\"", want), "serialized form {:?}, want the quoted text form", j);
            match lib!(serde_json::from_str::<Duration>(&j)) {
                Ok(b) => ensure!(b.to_parts() == d.to_parts(), "serde round trip of {} gives {}", cnt, count(b)),
                Err(e) => return Verdict::Fail(format!("deserializing {:?} fails: {}", j, e)),
            }
            // the other deserialization routes of the same JSON: an owned value, a reader, and the escaped spelling
            match lib!(serde_json::from_value::<Duration>(serde_json::Value::String(want.clone()))) {
                Ok(b) => ensure!(b.to_parts() == d.to_parts(), "from_value round trip of {} gives {}", cnt, count(b)),
                Err(e) => return Verdict::Fail(format!("deserializing the JSON value {:?} fails: {}", want, e)),
            }
            match lib!(serde_json::from_reader::<_, Duration>(j.as_bytes())) {
                Ok(b) => ensure!(b.to_parts() == d.to_parts(), "from_reader round trip of {} gives {}", cnt, count(b)),
                Err(e) => return Verdict::Fail(format!("deserializing {:?} from a reader fails: {}", j, e)),
            }
            let escaped = j.replace('μ', "\\u03bc");
            match lib!(serde_json::from_str::<Duration>(&escaped)) {
                Ok(b) => ensure!(b.to_parts() == d.to_parts(), "escaped JSON {:?} gives {}", escaped, count(b)),
                Err(e) => return Verdict::Fail(format!("deserializing the escaped JSON {:?} fails: {}", escaped, e)),
            }
        }
        Err(e) => return Verdict::Fail(format!("serialization fails: {e}")),
    }
    // and through a data format that is not human readable (bincode / postcard style): whatever is written is read back
    match lib!(crate::binfmt::to_tokens(&d)) {
        Ok(t) => match lib!(crate::binfmt::from_tokens::<Duration>(&t)) {
            Ok(b) => ensure!(b.to_parts() == d.to_parts(), "round trip through a non-human-readable serde format gives count {} for {} (tokens {:?})", count(b), cnt, t),
            Err(e) => return Verdict::Fail(format!("what Serialize writes for a non-human-readable format ({:?}) is not accepted by Deserialize: {}", t, e)),
        },
        Err(e) => return Verdict::Fail(format!("serialization to a non-human-readable format fails: {e}")),
    }
    let near_unit = [NS_S, NS_MIN, NS_H, NS_D].iter().any(|u| { let r = cnt.abs() % u; r <= 3 || u - r <= 3 });
    let class = if cnt.abs() > 104 * NS_D { ">104days" } else if near_unit { "near-unit-multiple" } else if cnt < 0 { "negative" } else { "plain" };
    Verdict::Pass(class, class != "plain")
}

// ---------------------------------------------------------------- unit text
const SPELL: [&[&str]; 7] = [
    &["d", "days", "day"],
    &["h", "hours", "hour", "hr"],
    &["min", "mins", "minute", "minutes"],
    &["s", "second", "seconds", "sec"],
    &["ms", "millisecond", "milliseconds"],
    &["μs", "us", "microsecond", "microseconds"],
    &["ns", "nanosecond", "nanoseconds"],
];
const W: [i128; 7] = [NS_D, NS_H, NS_MIN, NS_S, 1_000_000, 1_000, 1];

#[derive(Clone, Debug, Serialize, Deserialize)]
pub struct Text {
    pub neg: bool,
    /// (unit index 0..7, spelling index, decimal text of the value)
    pub groups: Vec<(usize, usize, String)>,
}

fn value_text() -> BS<String> {
    wunion(vec![
        (4, (0u32..100_000).prop_map(|v| v.to_string()).boxed()),
        (3, (0u32..10_000, 0u32..1_000_000, 1usize..7).prop_map(|(i, f, w)| format!("{}.{:0w$}", i, f % 10u32.pow(w as u32), w = w)).boxed()),
        (1, (0u64..1_000_000_000_000).prop_map(|v| v.to_string()).boxed()),
        (1, prop::sample::select(vec!["0", "1", "10.598", "0.5", "3.5", "73.671", "1.0", "12", "2.000000001"]).prop_map(|s| s.to_string()).boxed()),
        // long decimals (15-40 digits after the point): the nearest double must be taken exactly (a decimal close to the
        // midpoint of two doubles shows a parser that rounds early)
        (2, (0u32..1_000, prop::collection::vec(0u8..10, 15..40)).prop_map(|(i, d)| format!("{}.{}", i, d.iter().map(|x| (b'0' + x) as char).collect::<String>())).boxed()),
    ])
}

fn text_strategy() -> BS<Text> {
    (any::<bool>(), prop::collection::vec((any::<bool>(), 0usize..4, value_text()), 7), 0usize..7)
        .prop_map(|(neg, picks, force)| {
            let mut groups = vec![];
            for (u, (on, sp, v)) in picks.into_iter().enumerate() {
                if on || u == force {
                    groups.push((u, sp % SPELL[u].len(), v));
                }
            }
            Text { neg, groups }
        })
        .boxed()
}

fn text_of(c: &Text) -> String {
    let mut s = String::new();
    if c.neg {
        s.push('-');
    }
    for (i, (u, sp, v)) in c.groups.iter().enumerate() {
        if i > 0 {
            s.push(' ');
        }
        s.push_str(v);
        s.push(' ');
        s.push_str(SPELL[*u][*sp]);
    }
    s
}

pub fn text_oracle(c: &Text) -> Verdict {
    let txt = text_of(c);
    let mut sum = 0i128;
    let mut fractional = false;
    for (u, _, v) in &c.groups {
        fractional |= v.contains('.');
        // a whole number denotes exactly that many units (the text Display prints has this shape, and must parse back
        // to the identical duration); a decimal fraction is a float count of the unit (C18's semantics)
        sum += match v.parse::<i64>() {
            Ok(k) => k as i128 * W[*u],
            Err(_) => {
                let x: f64 = v.parse().unwrap();
                f64_trunc_i128(x * W[*u] as f64)
            }
        };
    }
    // all terms are non-negative and the library adds them with saturation
    let sum = clamp(sum);
    let want = clamp(if c.neg { -sum } else { sum });
    let r = lib!(Duration::from_str(&txt));
    match r {
        Ok(d) => ensure!(count(d) == want, "from_str({:?}) = count {}, want {}", txt, count(d), want),
        Err(e) => return Verdict::Fail(format!("from_str({:?}) fails: {:?}", txt, e)),
    }
    let class = if c.groups.len() >= 3 { ">=3-groups" } else if fractional { "fractional" } else if c.neg { "negative" } else { "plain" };
    Verdict::Pass(class, class != "plain")
}

// spellings: exhaustive
#[derive(Clone, Debug, Serialize, Deserialize)]
pub struct Spelling {
    pub u: usize,
    pub sp: usize,
    pub k: usize,
}

fn spelling_enum(_t: Tier, shard: usize, sink: &mut dyn FnMut(Spelling) -> bool) {
    let mut i = 0;
    for u in 0..7 {
        for sp in 0..SPELL[u].len() {
            for k in 0..6 {
                i += 1;
                if i % SHARDS == shard && !sink(Spelling { u, sp, k }) {
                    return;
                }
            }
        }
    }
}

fn spelling_oracle(c: &Spelling) -> Verdict {
    let vals = ["1", "10.598", "0", "59", "2.5", "1000"];
    let t = Text { neg: c.k % 2 == 1, groups: vec![(c.u, c.sp, vals[c.k].to_string())] };
    match text_oracle(&t) {
        Verdict::Fail(m) => Verdict::Fail(m),
        _ => Verdict::Pass("spelling", true),
    }
}

// ---------------------------------------------------------------- offsets
#[derive(Clone, Debug, Serialize, Deserialize)]
pub struct Offset {
    pub neg: bool,
    pub h: u32,
    pub m: u32,
    pub s: Option<u32>,
    pub colon: bool,
}

fn offset_strategy() -> BS<Offset> {
    (any::<bool>(), prop_oneof![0u32..24, 0u32..100], 0u32..60, proptest::option::of(0u32..60), any::<bool>())
        .prop_map(|(neg, h, m, s, colon)| Offset { neg, h, m, s, colon })
        .boxed()
}

pub fn offset_oracle(c: &Offset) -> Verdict {
    let sep = if c.colon { ":" } else { "" };
    let mut txt = format!("{}{:02}{}{:02}", if c.neg { '-' } else { '+' }, c.h, sep, c.m);
    if let Some(s) = c.s {
        txt.push_str(&format!("{}{:02}", sep, s));
    }
    let mag = c.h as i128 * NS_H + c.m as i128 * NS_MIN + c.s.unwrap_or(0) as i128 * NS_S;
    let want = if c.neg { -mag } else { mag };
    match lib!(Duration::from_str(&txt)) {
        Ok(d) => ensure!(count(d) == want, "from_str({:?}) = {}, want {}", txt, count(d), want),
        Err(e) => return Verdict::Fail(format!("from_str({:?}) fails: {:?}", txt, e)),
    }
    // the bare hours [+-]HH (and [+-]H): whether they are accepted is not documented, but an accepted one denotes whole hours
    for short in [format!("{}{:02}", if c.neg { '-' } else { '+' }, c.h), format!("{}{}", if c.neg { '-' } else { '+' }, c.h % 10)] {
        let hours = if short.len() == 3 { c.h } else { c.h % 10 } as i128;
        let want = if c.neg { -hours } else { hours } * NS_H;
        if let Ok(d) = lib!(Duration::from_str(&short)) {
            ensure!(count(d) == want, "from_str({:?}) is accepted and gives {}, want {} (whole hours)", short, count(d), want);
        }
    }
    Verdict::Pass(if c.s.is_some() { "with-seconds" } else { "hh:mm" }, true)
}

pub fn subs() -> Vec<Box<dyn DynSub>> {
    vec![
        sub(Sub { name: "c11.decompose_display", source: Source::Gen(dec_strategy, 2_500_000, 30_000_000), oracle: dec_oracle, known: no_known, hang_is_violation: false }),
        sub(Sub { name: "c11.unit_text", source: Source::Gen(text_strategy, 1_500_000, 10_000_000), oracle: text_oracle, known: no_known, hang_is_violation: false }),
        sub(Sub { name: "c11.spellings", source: Source::Enum(spelling_enum, |_| true), oracle: spelling_oracle, known: no_known, hang_is_violation: false }),
        sub(Sub { name: "c11.offsets", source: Source::Gen(offset_strategy, 500_000, 2_000_000), oracle: offset_oracle, known: no_known, hang_is_violation: false }),
        crate::props::fuzzsub::c11_fuzz(),
        crate::props::fuzzsub::fc11(),
    ]
}

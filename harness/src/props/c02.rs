//! C02 — Duration <-> integer nanosecond count round-trips; one canonical representation
use crate::engine::*;
use crate::gen::*;
use crate::model::*;
use crate::{ensure, lib};
use hifitime::{Duration, TimeUnits};
use proptest::prelude::*;
use serde::{Deserialize, Serialize};

pub const RULE: &str = "generated constructor inputs (i128 counts, raw (i16,u64) parts, i64 x nine units, composed fields < 2^53, std durations, i64 truncated counts) and read-back of every generated duration; oracle = clamp(intended integer) in i128 and the canonical-form predicate; non-trivial = negative intended value, |value| > 1 century, un-normalised nanosecond input, clamped result, or a value within 3 ns of +-1,2,3 centuries / the i64 limits; distinct = distinct inputs (hash set, capped: lower bound)";

pub const ASSUMPTIONS: &[&str] = &[
    "count of a library value := centuries*NPC + nanoseconds from to_parts()",
    "between +-2 centuries and the i64 limits try_truncated_nanoseconds may return Ok(count) or Err, never another number",
    "open finding KF-total-ns-sign: total_nanoseconds() of a duration with century field <= -2 and non-zero nanoseconds is excluded and counted only if it returns exactly centuries*NPC - nanoseconds (what the finding predicts); any other value there is a violation",
];

fn interesting(x: i128) -> bool {
    x < 0
        || x.abs() > NPC
        || [NPC, 2 * NPC, 3 * NPC, i64::MAX as i128, -(i64::MIN as i128)]
            .iter()
            .any(|b| (x.abs() - b).abs() <= 3)
}

// ---------------------------------------------------------------- from_total_nanoseconds
#[derive(Clone, Debug, Serialize, Deserialize)]
pub struct FromTotal {
    pub x: i128,
}

fn from_total_strategy() -> BS<FromTotal> {
    wunion(vec![
        (5, count_any()),
        (2, any::<i128>().boxed()),
        (1, (any::<bool>(), log_mag(127)).prop_map(|(s, m)| if s { -m } else { m }).boxed()),
        (1, prop::sample::select(vec![i128::MIN, i128::MAX, DMIN - 1, DMAX + 1, DMIN, DMAX, 0]).boxed()),
        (1, (-40_000i128..40_000, small_delta(3)).prop_map(|(k, d)| k * NPC + d).boxed()),
        // +-2^k +- a few ns over the whole i128 range (limb boundaries of a 128-bit count)
        (1, (0u32..127, any::<bool>(), small_delta(3)).prop_map(|(k, s, d)| (if s { -(1i128 << k) } else { 1i128 << k }).saturating_add(d)).boxed()),
        // counts whose century quotient is k * 2^w + c with c a valid century field: a quotient narrowed to w bits
        // before the range test would look in range
        (1, (prop::sample::select(vec![15u32, 16, 31, 32, 63, 64]), prop::sample::select(vec![-3i128, -2, -1, 1, 2, 3]), edge_centuries(), prop_oneof![Just(0i128), (0i128..NPC)])
            .prop_map(|(w, k, c, r)| ((k << w) + c).checked_mul(NPC).map(|v| v.saturating_add(r)).unwrap_or(if k < 0 { i128::MIN } else { i128::MAX }))
            .boxed()),
    ])
    .prop_map(|x| FromTotal { x })
    .boxed()
}

fn check_read_back(d: Duration, want: i128, what: &str) -> Result<(), String> {
    if !canonical(d) {
        return Err(format!("{what}: parts {:?} are not canonical", d.to_parts()));
    }
    if count(d) != want {
        return Err(format!("{what}: parts {:?} have count {}, want {}", d.to_parts(), count(d), want));
    }
    Ok(())
}

fn from_total_oracle(c: &FromTotal) -> Verdict {
    let d = lib!(Duration::from_total_nanoseconds(c.x));
    let want = clamp(c.x);
    if let Err(m) = check_read_back(d, want, &format!("from_total_nanoseconds({})", c.x)) {
        return Verdict::Fail(m);
    }
    let class = if want != c.x {
        "clamped"
    } else if interesting(c.x) {
        "interesting"
    } else {
        "plain"
    };
    Verdict::Pass(class, class != "plain")
}

// ---------------------------------------------------------------- from_parts
#[derive(Clone, Debug, Serialize, Deserialize)]
pub struct FromParts {
    pub d: Dur,
}

fn from_parts_strategy() -> BS<FromParts> {
    wunion(vec![
        (4, (any::<i16>(), any::<u64>()).prop_map(|(c, n)| Dur { c, n }).boxed()),
        (3, (edge_centuries(), 0u64..6, small_delta(3)).prop_map(|(c, k, d)| Dur { c: c.clamp(-32768, 32767) as i16, n: (k as i128 * NPC + d).clamp(0, u64::MAX as i128) as u64 }).boxed()),
        (2, dur_any()),
        (1, (edge_centuries(), prop::sample::select(vec![u64::MAX, u64::MAX - 1, 0, 1, NPC as u64, NPC as u64 - 1, NPC as u64 + 1])).prop_map(|(c, n)| Dur { c: c.clamp(-32768, 32767) as i16, n }).boxed()),
    ])
    .prop_map(|d| FromParts { d })
    .boxed()
}

fn from_parts_oracle(c: &FromParts) -> Verdict {
    let d = lib!(Duration::from_parts(c.d.c, c.d.n));
    let exact = c.d.c as i128 * NPC + c.d.n as i128;
    let want = clamp(exact);
    if let Err(m) = check_read_back(d, want, &format!("from_parts({}, {})", c.d.c, c.d.n)) {
        return Verdict::Fail(m);
    }
    let class = if want != exact {
        "clamped"
    } else if c.d.n as i128 >= NPC {
        "unnormalised"
    } else if interesting(exact) {
        "interesting"
    } else {
        "plain"
    };
    Verdict::Pass(class, class != "plain")
}

// ---------------------------------------------------------------- n * Unit
#[derive(Clone, Debug, Serialize, Deserialize)]
pub struct UnitInt {
    pub n: i64,
    pub u: usize,
    /// 0: n*U 1: U*n 2: n.unit()
    pub form: u8,
}

fn unit_int_strategy() -> BS<UnitInt> {
    let n: BS<(i64, usize)> = wunion(vec![
        (3, (i64_any(), 0usize..9).boxed()),
        // near the i64 overflow threshold of the product, and near the duration bounds
        (3, (0usize..9, prop::sample::select(vec![i64::MAX as i128, i64::MIN as i128, DMAX, DMIN, NPC, -NPC, 2 * NPC, -2 * NPC, 3 * NPC, -3 * NPC]), -3i128..=3)
            .prop_map(|(u, t, d)| ((t / UNIT_NS[u] + d).clamp(i64::MIN as i128, i64::MAX as i128) as i64, u))
            .boxed()),
    ]);
    (n, 0u8..3).prop_map(|((n, u), form)| UnitInt { n, u, form }).boxed()
}

fn unit_int_oracle(c: &UnitInt) -> Verdict {
    let u = UNITS[c.u];
    let n = c.n;
    let d = match c.form {
        0 => lib!(n * u),
        1 => lib!(u * n),
        _ => match c.u {
            0 => lib!(n.nanoseconds()),
            1 => lib!(n.microseconds()),
            2 => lib!(n.milliseconds()),
            3 => lib!(n.seconds()),
            4 => lib!(n.minutes()),
            5 => lib!(n.hours()),
            6 => lib!(n.days()),
            7 => lib!(n.weeks()),
            _ => lib!(n.centuries()),
        },
    };
    let exact = n as i128 * UNIT_NS[c.u];
    let want = clamp(exact);
    if let Err(m) = check_read_back(d, want, &format!("{} x {:?} (form {})", n, u, c.form)) {
        return Verdict::Fail(m);
    }
    let class = if want != exact {
        "clamped"
    } else if exact > i64::MAX as i128 || exact < i64::MIN as i128 {
        "beyond-i64"
    } else if interesting(exact) {
        "interesting"
    } else {
        "plain"
    };
    Verdict::Pass(class, class != "plain")
}

// ---------------------------------------------------------------- compose
#[derive(Clone, Debug, Serialize, Deserialize)]
pub struct Compose {
    pub sign: i8,
    pub f: [u64; 7],
}

fn field53() -> BS<u64> {
    wunion(vec![
        (3, (0u64..1000).boxed()),
        (2, log_mag(53).prop_map(|m| m as u64).boxed()),
        (1, Just(0u64).boxed()),
        (1, prop::sample::select(vec![(1u64 << 53) - 1, (1u64 << 52), 59, 60, 23, 24, 999, 1000]).boxed()),
    ])
}

fn compose_strategy() -> BS<Compose> {
    let free = (any::<i8>(), proptest::array::uniform7(field53())).prop_map(|(sign, f)| Compose { sign, f }).boxed();
    // every field at the top of its calendar range or one past it, the days at a whole number of centuries minus one:
    // sums that land exactly on, just below or just above a century boundary with all fields "in range"
    let top = |hi: u64| prop_oneof![2 => Just(hi), 2 => Just(hi + 1), 1 => 0..=hi + 1];
    let calendar = (any::<i8>(), (0u64..=6, 0u64..=2), top(23), top(59), top(59), top(999), top(999), top(999))
        .prop_map(|(sign, (k, dd), h, m, sec, ms, us, ns)| Compose { sign, f: [(k * 36_525 + dd).saturating_sub(1), h, m, sec, ms, us, ns] })
        .boxed();
    wunion(vec![(5, free), (1, calendar)])
}

const COMPOSE_W: [i128; 7] = [NS_D, NS_H, NS_MIN, NS_S, 1_000_000, 1_000, 1];

fn compose_oracle(c: &Compose) -> Verdict {
    let f = c.f;
    let d = lib!(Duration::compose(c.sign, f[0], f[1], f[2], f[3], f[4], f[5], f[6]));
    let mut sum: i128 = 0;
    for i in 0..7 {
        sum += f[i] as i128 * COMPOSE_W[i];
    }
    let exact = if c.sign < 0 { -clamp(sum) } else { sum };
    let want = clamp(exact);
    if let Err(m) = check_read_back(d, want, &format!("compose({}, {:?})", c.sign, f)) {
        return Verdict::Fail(m);
    }
    let big_field = (0..7).any(|i| f[i] as i128 * COMPOSE_W[i] >= (1i128 << 53));
    let class = if want != exact {
        "clamped"
    } else if big_field {
        "field>=2^53ns"
    } else if c.sign < 0 {
        "negative"
    } else if interesting(exact) {
        "interesting"
    } else {
        "plain"
    };
    Verdict::Pass(class, class != "plain")
}

// ---------------------------------------------------------------- std::time::Duration
#[derive(Clone, Debug, Serialize, Deserialize)]
pub struct StdConv {
    pub secs: u64,
    pub nanos: u32,
    pub d: Dur,
}

fn std_strategy() -> BS<StdConv> {
    let secs: BS<u64> = wunion(vec![
        (3, any::<u64>().boxed()),
        (3, log_mag(64).prop_map(|m| m as u64).boxed()),
        (2, (-3i128..=3).prop_map(|d| ((DMAX / NS_S) + d) as u64).boxed()),
        (1, (0u64..100).boxed()),
        // whole centuries +- 2 s
        (2, (0u64..=6, 0u64..=4).prop_map(|(k, d)| (k * 3_155_760_000 + d).saturating_sub(2)).boxed()),
    ]);
    (secs, prop_oneof![3 => 0u32..1_000_000_000, 1 => prop::sample::select(vec![0u32, 1, 999_999_999, 500_000_000])], dur_any())
        .prop_map(|(secs, nanos, d)| StdConv { secs, nanos, d })
        .boxed()
}

fn std_oracle(c: &StdConv) -> Verdict {
    let sd = std::time::Duration::new(c.secs, c.nanos);
    let d: Duration = lib!(Duration::from(sd));
    let exact = sd.as_nanos().min(i128::MAX as u128) as i128;
    let want = clamp(exact);
    if let Err(m) = check_read_back(d, want, &format!("Duration::from(std {:?})", sd)) {
        return Verdict::Fail(m);
    }
    // other direction
    let h = lib!(c.d.lib());
    if canonical(h) {
        let back: std::time::Duration = lib!(h.into());
        let ch = count(h);
        let want_ns: u128 = if ch < 0 { 0 } else { ch as u128 };
        ensure!(
            back.as_nanos() == want_ns,
            "std::time::Duration::from({:?} count {}) = {:?}, want {} ns",
            h.to_parts(), ch, back, want_ns
        );
    }
    let class = if want != exact { "clamped" } else if count(h) < 0 { "negative->std" } else if exact > NPC { ">1century" } else { "plain" };
    Verdict::Pass(class, class != "plain")
}

// ---------------------------------------------------------------- 64-bit accessors and read-back
#[derive(Clone, Debug, Serialize, Deserialize)]
pub struct Trunc {
    pub n: i64,
    pub d: Dur,
}

fn trunc_strategy() -> BS<Trunc> {
    let d: BS<Dur> = wunion(vec![
        (3, dur_any()),
        (4, (prop::sample::select(vec![0i128, NPC, -NPC, 2 * NPC, -2 * NPC, 3 * NPC, -3 * NPC, i64::MAX as i128, i64::MIN as i128]), prop_oneof![small_delta(3), (any::<bool>(), log_mag(62)).prop_map(|(s, m)| if s { -m } else { m })])
            .prop_map(|(b, d)| Dur::of_count(b + d))
            .boxed()),
        (2, ((-3 * NPC - 5)..=(3 * NPC + 5)).prop_map(Dur::of_count).boxed()),
    ]);
    (i64_any(), d).prop_map(|(n, d)| Trunc { n, d }).boxed()
}

fn trunc_oracle(c: &Trunc) -> Verdict {
    // constructor
    let t = lib!(Duration::from_truncated_nanoseconds(c.n));
    if let Err(m) = check_read_back(t, c.n as i128, &format!("from_truncated_nanoseconds({})", c.n)) {
        return Verdict::Fail(m);
    }
    // accessors on an arbitrary duration
    let d = lib!(c.d.lib());
    if !canonical(d) {
        return Verdict::Fail(format!("from_parts({}, {}) not canonical: {:?}", c.d.c, c.d.n, d.to_parts()));
    }
    let cd = count(d);
    let fits = cd >= i64::MIN as i128 && cd <= i64::MAX as i128;
    let r = lib!(d.try_truncated_nanoseconds());
    let tr = lib!(d.truncated_nanoseconds());
    match r {
        Ok(v) => {
            ensure!(v as i128 == cd, "try_truncated_nanoseconds of {:?} (count {}) = Ok({})", d.to_parts(), cd, v);
            ensure!(tr == v, "truncated_nanoseconds {} differs from try_ variant {}", tr, v);
        }
        Err(_) => {
            ensure!(cd.abs() > 2 * NPC, "try_truncated_nanoseconds of {:?} (count {}, within +-2 centuries) is Err", d.to_parts(), cd);
            let bound = if cd < 0 { i64::MIN } else { i64::MAX };
            ensure!(tr == bound, "truncated_nanoseconds of {:?} (count {}) = {}, want the i64 bound {}", d.to_parts(), cd, tr, bound);
        }
    }
    if !fits {
        ensure!(r.is_err(), "try_truncated_nanoseconds of {:?} (count {} outside i64) is Ok({:?})", d.to_parts(), cd, r);
    }
    let class = if !fits {
        "outside-i64"
    } else if interesting(cd) {
        "interesting"
    } else {
        "plain"
    };
    Verdict::Pass(class, class != "plain")
}

// ---------------------------------------------------------------- total_nanoseconds read-back
#[derive(Clone, Debug, Serialize, Deserialize)]
pub struct ReadBack {
    pub d: Dur,
}

fn readback_strategy() -> BS<ReadBack> {
    dur_any().prop_map(|d| ReadBack { d }).boxed()
}

fn readback_known(c: &ReadBack) -> Option<&'static str> {
    let d = c.d.lib();
    // known only if the value read is exactly the one the finding predicts
    if super::c01::reads_bad_total_ns(d) && canonical(d) && matches!(guard(move || d.total_nanoseconds()), Ok(t) if t == kf_total_ns(d)) {
        Some("KF-total-ns-sign")
    } else {
        None
    }
}

fn readback_oracle(c: &ReadBack) -> Verdict {
    let d = lib!(c.d.lib());
    ensure!(canonical(d), "from_parts({}, {}) not canonical: {:?}", c.d.c, c.d.n, d.to_parts());
    let cd = count(d);
    // the direction that does not depend on the open finding first
    let back = lib!(Duration::from_total_nanoseconds(cd));
    ensure!(back.to_parts() == d.to_parts(), "from_total_nanoseconds({}) = {:?}, want {:?}", cd, back.to_parts(), d.to_parts());
    let tn = lib!(d.total_nanoseconds());
    ensure!(tn == cd, "total_nanoseconds of {:?} = {}, want {}", d.to_parts(), tn, cd);
    let class = if d.to_parts().0 <= -2 { "century<=-2" } else if interesting(cd) { "interesting" } else { "plain" };
    Verdict::Pass(class, class != "plain")
}

// ---------------------------------------------------------------- from_tz_offset(sign, hours, minutes)
#[derive(Clone, Debug, Serialize, Deserialize)]
pub struct TzOffset {
    pub sign: i8,
    pub h: i64,
    pub m: i64,
}

fn tz_strategy() -> BS<TzOffset> {
    let v = || prop_oneof![3 => -100i64..=100, 2 => i64_any(), 1 => (-3i128..=3, small_delta(3)).prop_map(|(k, d)| ((k * (i64::MAX as i128) / 60) + d).clamp(i64::MIN as i128, i64::MAX as i128) as i64)];
    (any::<i8>(), v(), v()).prop_map(|(sign, h, m)| TzOffset { sign, h, m }).boxed()
}

fn tz_oracle(c: &TzOffset) -> Verdict {
    // hours and minutes are integer counts of a unit (each clamped), their sum saturates, a negative sign negates
    let sum = clamp(clamp(c.h as i128 * NS_H) + clamp(c.m as i128 * NS_MIN));
    let want = if c.sign < 0 { clamp(-sum) } else { sum };
    let d = lib!(Duration::from_tz_offset(c.sign, c.h, c.m));
    if let Err(m) = check_read_back(d, want, &format!("from_tz_offset({}, {}, {})", c.sign, c.h, c.m)) {
        return Verdict::Fail(m);
    }
    let class = if want == DMAX || want == DMIN { "clamped" } else if c.sign < 0 { "negative-sign" } else if c.h.unsigned_abs() > 100 || c.m.unsigned_abs() > 100 { "large" } else { "clock-like" };
    Verdict::Pass(class, class != "clock-like")
}

pub fn subs() -> Vec<Box<dyn DynSub>> {
    vec![
        sub(Sub { name: "c02.from_total", source: Source::Gen(from_total_strategy, 2_000_000, 20_000_000), oracle: from_total_oracle, known: no_known, hang_is_violation: false }),
        sub(Sub { name: "c02.from_parts", source: Source::Gen(from_parts_strategy, 2_000_000, 20_000_000), oracle: from_parts_oracle, known: no_known, hang_is_violation: false }),
        sub(Sub { name: "c02.unit_int", source: Source::Gen(unit_int_strategy, 2_400_000, 20_000_000), oracle: unit_int_oracle, known: no_known, hang_is_violation: false }),
        sub(Sub { name: "c02.compose", source: Source::Gen(compose_strategy, 1_600_000, 10_000_000), oracle: compose_oracle, known: no_known, hang_is_violation: false }),
        sub(Sub { name: "c02.std", source: Source::Gen(std_strategy, 1_600_000, 10_000_000), oracle: std_oracle, known: no_known, hang_is_violation: false }),
        sub(Sub { name: "c02.trunc", source: Source::Gen(trunc_strategy, 3_200_000, 30_000_000), oracle: trunc_oracle, known: no_known, hang_is_violation: false }),
        sub(Sub { name: "c02.tz_offset", source: Source::Gen(tz_strategy, 800_000, 8_000_000), oracle: tz_oracle, known: no_known, hang_is_violation: false }),
        sub(Sub { name: "c02.readback", source: Source::Gen(readback_strategy, 2_000_000, 20_000_000), oracle: readback_oracle, known: readback_known, hang_is_violation: false }),
        crate::props::fuzzsub::fc02(),
    ]
}

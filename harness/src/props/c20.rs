//! C20 — GNSS week/time-of-week, ns counters and day-of-year are exact and invertible
use crate::engine::*;
use crate::gen::*;
use crate::model::*;
use crate::{ensure, lib};
use hifitime::Epoch;
use proptest::prelude::*;
use serde::{Deserialize, Serialize};

pub const RULE: &str = "generated (week: u32, nanoseconds: u64, scale) with nanoseconds uniform / small / just below one week / above one week / products near MAX, epochs at or after each reference for the inverse; all classes of u64 counters (uniform, < one century, century +- 3, > one century) for the four GNSS scales, epochs before the reference and in other scales; (year 0001-9999, day of year in [1, 366|367)) with integer days, generated fractions and both ends x nine scales; oracle = integer div/mod on the i128 count and days-from-civil; non-trivial = week > 2^16, ns of week >= one week (carry), counter >= one century, year outside 1900-2100, day of year >= 365, or scale not GPST; distinct = distinct case tuples (hash set, capped: lower bound)";

pub const ASSUMPTIONS: &[&str] = &[
    "from_time_of_week is asserted only where week x 7 d + ns stays representable",
    "day-of-year round trip tolerance: 4 ulp(d) + 2 ns; inputs whose truncated nanosecond offset would reach the next year (within rounding of the upper end) are skipped",
];

// ---------------------------------------------------------------- time of week
#[derive(Clone, Debug, Serialize, Deserialize)]
pub struct Tow {
    pub week: u32,
    pub ns: u64,
    pub s: usize,
}

fn tow_strategy() -> BS<Tow> {
    let week = wunion(vec![
        (3, (0u32..5000).boxed()),
        (2, any::<u32>().boxed()),
        (2, log_mag(32).prop_map(|m| m as u32).boxed()),
        (2, (-3i128..=3).prop_map(|d| ((DMAX / NS_W) + d) as u32).boxed()),
        (1, prop::sample::select(vec![0u32, 1, 65_535, 65_536, 65_537, 1024, 2047, 2048, u32::MAX]).boxed()),
    ]);
    let ns = wunion(vec![
        (3, (0u64..NS_W as u64).boxed()),
        (2, (0u64..1000).boxed()),
        (2, (0u64..1000).prop_map(|d| NS_W as u64 - 1 - d).boxed()),
        (2, (NS_W as u64..3 * NS_W as u64).boxed()),
        (1, any::<u64>().boxed()),
        (1, (0u64..604_800).prop_map(|s| s * 1_000_000_000).boxed()),
    ]);
    (week, ns, 0usize..9).prop_map(|(week, ns, s)| Tow { week, ns, s }).boxed()
}

fn tow_oracle(c: &Tow) -> Verdict {
    let exact = c.week as i128 * NS_W + c.ns as i128;
    if exact >= DMAX {
        return Verdict::Skip("week x 7 d + ns not representable");
    }
    let e = lib!(Epoch::from_time_of_week(c.week, c.ns, SCALES[c.s]));
    ensure!(e.time_scale == SCALES[c.s], "scale not preserved");
    ensure!(count(e.duration) == exact, "from_time_of_week({}, {}, {}) has count {}, want {}", c.week, c.ns, SCALE_NAMES[c.s], count(e.duration), exact);
    ensure!(canonical(e.duration), "from_time_of_week({}, {}, {}) is not canonical: {:?}", c.week, c.ns, SCALE_NAMES[c.s], e.duration.to_parts());
    if c.s == S_UTC {
        let u = lib!(Epoch::from_time_of_week_utc(c.week, c.ns));
        ensure!(u.time_scale == SCALES[S_UTC] && count(u.duration) == exact, "from_time_of_week_utc differs");
    }
    // inverse: the unique pair with ns of week < one week
    let (w, n) = lib!(e.to_time_of_week());
    let (ww, wn) = (exact.div_euclid(NS_W), exact.rem_euclid(NS_W));
    ensure!(w as i128 == ww && n as i128 == wn, "to_time_of_week of count {} = ({}, {}), want ({}, {})", exact, w, n, ww, wn);
    ensure!((n as i128) < NS_W, "ns of week {} not below one week", n);
    // and back
    let e2 = lib!(Epoch::from_time_of_week(w, n, SCALES[c.s]));
    ensure!(e2.duration.to_parts() == e.duration.to_parts(), "from_time_of_week(to_time_of_week(e)) != e");
    let class = if c.ns as i128 >= NS_W {
        "carry"
    } else if c.week > 65_536 {
        "week>2^16"
    } else if c.s != S_GPST {
        "scale!=GPST"
    } else {
        "plain"
    };
    Verdict::Pass(class, class != "plain")
}

// ---------------------------------------------------------------- inverse on arbitrary epochs at/after the reference
#[derive(Clone, Debug, Serialize, Deserialize)]
pub struct TowInv {
    pub c: i128,
    pub s: usize,
}

fn towinv_strategy() -> BS<TowInv> {
    let c = wunion(vec![
        (3, (0i128..DMAX).boxed()),
        (3, (0i128..200_000, small_delta(3)).prop_map(|(w, d)| (w * NS_W + d).max(0)).boxed()),
        (2, (0i128..40 * NPC).boxed()),
        (2, (0i128..100, small_delta(3)).prop_map(|(k, d)| (k * NPC + d).max(0)).boxed()),
        (1, log_mag(76).boxed()),
    ]);
    (c, 0usize..9).prop_map(|(c, s)| TowInv { c, s }).boxed()
}

fn towinv_oracle(c: &TowInv) -> Verdict {
    let e = Epoch::from_duration(mk(c.c), SCALES[c.s]);
    let cnt = count(e.duration);
    let (w, n) = lib!(e.to_time_of_week());
    ensure!(w as i128 == cnt.div_euclid(NS_W) && n as i128 == cnt.rem_euclid(NS_W), "to_time_of_week of {} count {} = ({}, {}), want ({}, {})", SCALE_NAMES[c.s], cnt, w, n, cnt.div_euclid(NS_W), cnt.rem_euclid(NS_W));
    let back = lib!(Epoch::from_time_of_week(w, n, SCALES[c.s]));
    ensure!(back.duration.to_parts() == e.duration.to_parts() && back.time_scale == e.time_scale, "round trip through (week, ns) changed the epoch");
    let class = if cnt >= NPC { ">=1century" } else if c.s != S_GPST { "scale!=GPST" } else { "plain" };
    Verdict::Pass(class, class != "plain")
}

// ---------------------------------------------------------------- nanosecond counters
#[derive(Clone, Debug, Serialize, Deserialize)]
pub struct Counter {
    pub n: u64,
    /// 0 GPST 1 QZSST 2 GST 3 BDT
    pub which: u8,
    /// an epoch in any scale for the error paths
    pub e: Ep,
    pub via: usize,
}

fn counter_strategy() -> BS<Counter> {
    let n = wunion(vec![
        (3, any::<u64>().boxed()),
        (3, (0u64..NPC as u64).boxed()),
        (2, (-3i128..=3).prop_map(|d| (NPC + d) as u64).boxed()),
        (1, (0u64..1000).boxed()),
        (1, prop::sample::select(vec![0u64, 1, u64::MAX, NPC as u64, NPC as u64 - 1, 2 * NPC as u64]).boxed()),
    ]);
    (n, 0u8..4, epoch_any(&ALL_SCALES), 0usize..6).prop_map(|(n, which, e, via)| Counter { n, which, e, via: UNIFORM[via] }).boxed()
}

const GNSS: [usize; 4] = [S_GPST, S_QZSST, S_GST, S_BDT];

fn read_counter(e: &Epoch, which: u8) -> Result<u64, hifitime::HifitimeError> {
    match which {
        0 => e.to_gpst_nanoseconds(),
        1 => e.to_qzsst_nanoseconds(),
        2 => e.to_gst_nanoseconds(),
        _ => e.to_bdt_nanoseconds(),
    }
}

fn counter_oracle(c: &Counter) -> Verdict {
    let s = GNSS[c.which as usize];
    let e = match c.which {
        0 => lib!(Epoch::from_gpst_nanoseconds(c.n)),
        1 => lib!(Epoch::from_qzsst_nanoseconds(c.n)),
        2 => lib!(Epoch::from_gst_nanoseconds(c.n)),
        _ => lib!(Epoch::from_bdt_nanoseconds(c.n)),
    };
    ensure!(e.time_scale == SCALES[s] && count(e.duration) == c.n as i128, "from_*_nanoseconds({}) has count {} in {:?}", c.n, count(e.duration), e.time_scale);
    let r = lib!(read_counter(&e, c.which));
    if (c.n as i128) < NPC {
        ensure!(matches!(r, Ok(v) if v == c.n), "counter {} does not round trip: {:?}", c.n, r);
        // same answer when first converted to another uniform scale
        let v = lib!(e.to_time_scale(SCALES[c.via]));
        let r2 = lib!(read_counter(&v, c.which));
        ensure!(matches!(r2, Ok(v) if v == c.n), "counter {} read through {} gives {:?}", c.n, SCALE_NAMES[c.via], r2);
    } else {
        ensure!(r.is_err(), "counter {} >= one century read back as {:?}", c.n, r);
    }
    // arbitrary epoch: Ok(count) iff 0 <= count < one century in the GNSS scale (exact scales only)
    if c.e.s != S_ET && c.e.s != S_TDB {
        let tai = to_tai(c.e.s, c.e.c);
        let in_s = tai - zero_tai_ns(s);
        let r3 = lib!(read_counter(&c.e.lib(), c.which));
        if in_s >= 0 && in_s < NPC {
            ensure!(matches!(r3, Ok(v) if v as i128 == in_s), "{} {} read as {} ns counter gives {:?}, want {}", SCALE_NAMES[c.e.s], c.e.c, SCALE_NAMES[s], r3, in_s);
        } else {
            ensure!(r3.is_err(), "{} {} (count {} in {}) read as counter gives {:?}, want an error", SCALE_NAMES[c.e.s], c.e.c, in_s, SCALE_NAMES[s], r3);
        }
        // the `{:o}` text form prints the GPST counter: if it prints anything, it is that count and no other number
        if c.which == 0 {
            let e3 = c.e.lib();
            let txt = guard(move || format!("{:o}", e3));
            if in_s >= 0 && in_s < NPC {
                ensure!(matches!(&txt, Ok(t) if *t == in_s.to_string()), "{{:o}} of {} {} prints {:?}, want the GPST counter {}", SCALE_NAMES[c.e.s], c.e.c, txt, in_s);
            } else if let Ok(t) = &txt {
                ensure!(*t == in_s.to_string(), "{{:o}} of {} {} prints {:?} although the GPST count is {} (negative or beyond one century): a wrong number instead of an error", SCALE_NAMES[c.e.s], c.e.c, t, in_s);
            }
        }
    }
    let class = if c.n as i128 >= NPC { "counter>=century" } else if s != S_GPST { "scale!=GPST" } else { "plain" };
    Verdict::Pass(class, class != "plain")
}

// ---------------------------------------------------------------- day of year
#[derive(Clone, Debug, Serialize, Deserialize)]
pub struct Doy {
    pub y: i32,
    pub d: Fl,
    pub s: usize,
}

fn doy_strategy() -> BS<Doy> {
    // years before year 1 are proleptic Gregorian years like any other (year 0 is a leap year)
    let y = prop_oneof![3 => 1i32..=9999, 2 => 1890i32..2110, 1 => prop::sample::select(vec![1i32, 4, 100, 400, 1600, 1899, 1900, 1901, 2000, 2100, 9999]), 1 => -9999i32..=0, 1 => prop::sample::select(vec![0i32, -1, -3, -4, -5, -99, -100, -101, -399, -400, -401, -9999])];
    (y, 0u8..6, 0u32..366, any::<u64>(), 0usize..9)
        .prop_map(|(y, kind, k, r, s)| {
            let len = if is_leap(y as i64) { 366 } else { 365 };
            let k = (k % len) + 1; // 1..=len
            let frac = (r >> 11) as f64 / (1u64 << 53) as f64; // [0,1)
            let d = match kind {
                0 | 1 => k as f64,
                2 => k as f64 + frac,
                3 => 1.0 + frac * 1e-6,
                4 => (len as f64 + 1.0) - (1.0 + frac) * 1e-6,
                _ => k as f64 + (r % 86_400) as f64 / 86_400.0,
            };
            Doy { y, d: Fl::of(d), s }
        })
        .boxed()
}

fn doy_oracle(c: &Doy) -> Verdict {
    let d = c.d.v();
    let y = c.y as i64;
    let year_ns = if is_leap(y) { 366 } else { 365 } as i128 * NS_D;
    // offset from 1 January, as the real product truncated to ns would give (computed exactly: d has 53 bits)
    let (m, e2) = f64_parts(d - 1.0);
    let off: i128 = {
        // (m * 2^e2) * NS_D, truncated
        let p = m as i128 * NS_D;
        if e2 >= 0 { p << e2 } else if -e2 >= 127 { 0 } else { p >> (-e2) as u32 }
    };
    if off < 0 || off >= year_ns - 2 {
        return Verdict::Skip("offset reaches the next year within rounding");
    }
    let e = lib!(Epoch::from_day_of_year(c.y, d, SCALES[c.s]));
    ensure!(e.time_scale == SCALES[c.s], "scale not preserved");
    let start = days_1900(y, 1, 1) as i128 * NS_D - greg_offset_ns(c.s);
    let got_off = count(e.duration) - start;
    // float precision of the product: 1 ns + 2 ulp of the product
    let tol = 1 + (2.0 * ulp(off as f64)) as i128;
    ensure!((got_off - off).abs() <= tol, "from_day_of_year({}, {}, {}) lies {} ns after 1 January, want {} (+-{})", c.y, d, SCALE_NAMES[c.s], got_off, off, tol);
    if d.fract() == 0.0 {
        ensure!(got_off == (d as i128 - 1) * NS_D, "integer day of year {} is not exactly {} days after 1 January: {} ns", d, d as i128 - 1, got_off);
    }
    let (yy, dd) = lib!(e.year_days_of_year());
    ensure!(yy as i64 == y, "year_days_of_year year {} want {}", yy, y);
    let tol_d = 4.0 * ulp(d) + 2.0 / NS_D as f64;
    ensure!((dd - d).abs() <= tol_d, "day of year read back {} for input {} (difference {:e} > {:e})", dd, d, (dd - d).abs(), tol_d);
    let diy = lib!(e.duration_in_year());
    ensure!(count(diy) == got_off, "duration_in_year = {}, want {}", count(diy), got_off);
    ensure!(lib!(e.day_of_year()) == dd, "day_of_year differs from year_days_of_year");
    let class = if d >= 365.0 { "doy>=365" } else if !(1900..=2100).contains(&y) { "year-outside-1900-2100" } else if c.s != S_GPST { "scale!=GPST" } else { "plain" };
    Verdict::Pass(class, class != "plain")
}

// ---------------------------------------------------------------- day of year read from an epoch
#[derive(Clone, Debug, Serialize, Deserialize)]
pub struct DoyRead {
    /// ns since 1900-01-01T00:00:00 in the scale's own calendar
    pub g: i128,
    pub s: usize,
}

thread_local! {
    static J_FORMATS: (hifitime::efmt::Format, hifitime::efmt::Format) = (<hifitime::efmt::Format as std::str::FromStr>::from_str("%J").unwrap(), <hifitime::efmt::Format as std::str::FromStr>::from_str("%Y %J").unwrap());
    static ORDINAL_FORMAT: hifitime::efmt::Format = <hifitime::efmt::Format as std::str::FromStr>::from_str("%j").unwrap();
}

fn doyread_strategy() -> BS<DoyRead> {
    (ns1900_0001_9999(), 0usize..9).prop_map(|(g, s)| DoyRead { g, s }).boxed()
}

fn doyread_oracle(c: &DoyRead) -> Verdict {
    let cnt = c.g - greg_offset_ns(c.s);
    let e = Epoch::from_duration(mk(cnt), SCALES[c.s]);
    let g = greg_of_ns1900(c.g);
    let in_year = c.g - days_1900(g.y, 1, 1) as i128 * NS_D;
    let (yy, dd) = lib!(e.year_days_of_year());
    ensure!(yy as i64 == g.y, "year_days_of_year of {} count {} ({:04}-{:02}-{:02}): year {}, want {}", SCALE_NAMES[c.s], cnt, g.y, g.m, g.d, yy, g.y);
    // exact value: 1 + in_year / one day
    let err = abs_err_vs_rational(dd, in_year + NS_D, NS_D);
    ensure!(err <= 4.0 * ulp(dd.abs().max(1.0)), "day of year of {} count {} = {}, exact {} ns into the year (error {:e})", SCALE_NAMES[c.s], cnt, dd, in_year, err);
    ensure!(dd >= 1.0, "day of year {} below 1", dd);
    ensure!(lib!(e.day_of_year()) == dd, "day_of_year differs from year_days_of_year");
    ensure!(lib!(e.year()) as i64 == g.y, "year() = {}, want {}", e.year(), g.y);
    let diy = lib!(e.duration_in_year());
    ensure!(count(diy) == in_year, "duration_in_year = {}, want {}", count(diy), in_year);
    // the ordinal day printed by %j is the whole part of that day of year
    let j = lib!(format!("{}", hifitime::efmt::Formatter::new(e, ORDINAL_FORMAT.with(|f| *f))));
    ensure!(j == format!("{:03}", in_year / NS_D + 1), "%j of {} count {} prints {:?}, want {:03}", SCALE_NAMES[c.s], cnt, j, in_year / NS_D + 1);
    // the fractional day of year printed by %J is that same day of year (1 January is day 1), alone and next to a date token
    {
        let want = format!("{}", dd);
        let (fa, fb) = J_FORMATS.with(|f| *f);
        let ja = lib!(format!("{}", hifitime::efmt::Formatter::new(e, fa)));
        let jb = lib!(format!("{}", hifitime::efmt::Formatter::new(e, fb)));
        ensure!(ja == want, "%J of {} count {} prints {:?}, want {:?}", SCALE_NAMES[c.s], cnt, ja, want);
        ensure!(jb == format!("{} {}", fmt_year(g.y), want), "\"%Y %J\" of {} count {} prints {:?}, want \"{} {}\"", SCALE_NAMES[c.s], cnt, jb, fmt_year(g.y), want);
    }
    // the ordinal date text YYYY-DDD (the ISO 8601 ordinal format) parses back to the start of that day, day 366 included
    if c.s == S_UTC && (1..=9999).contains(&g.y) {
        let txt = format!("{}-{}", fmt_year(g.y), j);
        match lib!(hifitime::efmt::consts::ISO8601_ORDINAL.parse(&txt)) {
            Ok(p) => ensure!(p.time_scale == SCALES[S_UTC] && count(p.duration) == cnt - cnt.rem_euclid(NS_D), "{:?} parses to count {}, want the start of that day {}", txt, count(p.duration), cnt - cnt.rem_euclid(NS_D)),
            Err(err) => return Verdict::Fail(format!("the ordinal date {:?} does not parse: {:?}", txt, err)),
        }
    }
    let class = if g.m == 12 && g.d == 31 { "31-december" } else if g.y < 1900 { "before-1900" } else if c.s != S_GPST { "scale!=GPST" } else { "plain" };
    Verdict::Pass(class, class != "plain")
}

pub fn subs() -> Vec<Box<dyn DynSub>> {
    vec![
        sub(Sub { name: "c20.time_of_week", source: Source::Gen(tow_strategy, 2_400_000, 15_000_000), oracle: tow_oracle, known: no_known, hang_is_violation: false }),
        sub(Sub { name: "c20.time_of_week_inverse", source: Source::Gen(towinv_strategy, 1_600_000, 10_000_000), oracle: towinv_oracle, known: no_known, hang_is_violation: false }),
        sub(Sub { name: "c20.ns_counters", source: Source::Gen(counter_strategy, 1_600_000, 10_000_000), oracle: counter_oracle, known: no_known, hang_is_violation: false }),
        sub(Sub { name: "c20.day_of_year", source: Source::Gen(doy_strategy, 1_200_000, 8_000_000), oracle: doy_oracle, known: no_known, hang_is_violation: false }),
        sub(Sub { name: "c20.day_of_year_read", source: Source::Gen(doyread_strategy, 1_600_000, 10_000_000), oracle: doyread_oracle, known: no_known, hang_is_violation: false }),
        crate::props::fuzzsub::fc20(),
    ]
}

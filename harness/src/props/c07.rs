//! C07 — ET and TDB match the NAIF and ESA closed forms and round-trip within nanoseconds
use crate::engine::*;
use crate::gen::*;
use crate::model::*;
use crate::{ensure, lib};
use hifitime::{Duration, Epoch, TimeScale};
use proptest::prelude::*;
use serde::{Deserialize, Serialize};

pub const RULE: &str = "generated epochs within +-10 000 years of J2000 (uniform in time, log-uniform distance from J2000, dense yearly-phase sweep) given in TAI, TT, GPST, QZSST, GST, BDT and converted to ET and TDB (forward), given in ET/TDB (reverse), round trips and ordered pairs 101 ns .. 10 us apart; oracle = the closed forms of the statement evaluated in f64 on t = the ET (TDB) seconds past J2000, tolerances 30 ns / 20 ns / order beyond 100 ns verbatim; non-trivial = |t| > 100 years, or source scale not TAI, or a reverse/round-trip case; distinct = distinct case tuples (hash set, capped: lower bound)";

pub const ASSUMPTIONS: &[&str] = &[
    "t in the closed forms is the resulting ET (resp. TDB) seconds past J2000; using TAI- or TT-based t moves the value by at most 11 ns (K*M1*32 s), inside the 30 ns tolerance",
    "f64 evaluation error of the closed forms is below 1e-12 s for |t| <= 3.2e11 s",
    "constants K, EB, M0, M1 are the statement's; C06's table check compares them with naif0012.txt",
];

const SPAN: i128 = 10_000 * 365 * NS_D + 2_425 * NS_D; // 10 000 Julian years

#[derive(Clone, Debug, Serialize, Deserialize)]
pub struct Case {
    /// offset from J2000 on the source scale's own axis, ns
    pub off: i128,
    /// source scale index (uniform for forward, ET/TDB for reverse)
    pub src: usize,
    /// target dynamical scale (ET or TDB) — for reverse cases equal to src
    pub dynamical: usize,
    /// separation for the order check (101 ns .. 10 us)
    pub sep: i128,
}

fn off_strategy() -> BS<i128> {
    wunion(vec![
        (3, (-SPAN..=SPAN).boxed()),
        (3, (any::<bool>(), log_mag(68)).prop_map(|(s, m)| { let m = m % SPAN; if s { -m } else { m } }).boxed()),
        // yearly phase sweep: 4096 phases x sampled years
        (3, (-10_000i128..10_000, 0i128..4096, 0i128..1_000_000_000).prop_map(|(y, ph, jit)| (y * 31_557_600 * NS_S + ph * (31_557_600 * NS_S / 4096) + jit).clamp(-SPAN, SPAN)).boxed()),
        (1, small_delta(1000)),
        (1, tai_count_any().prop_map(|t| (t - j2000_ns()).clamp(-SPAN, SPAN)).boxed()),
        // whole centuries from J2000 plus one of the constant offsets between scales (+-32.184 s, 0), +- 2 ms:
        // where the nanosecond field of the dynamical count is about to borrow from the century field
        (1, (-99i128..=99, prop::sample::select(vec![0i128, 32_184_000_000, -32_184_000_000]), -2_000_000i128..=2_000_000).prop_map(|(k, o, d)| (k * NPC + o + d).clamp(-SPAN, SPAN)).boxed()),
        // the mirror image of J2000 about J1900 (a count of -J2000), and of 1900 about J2000, +- a few ns
        (1, (prop::sample::select(vec![-2i128, -1]), small_delta(3)).prop_map(|(k, d)| k * j2000_ns() + d).boxed()),
    ])
}

fn fwd_strategy() -> BS<Case> {
    (off_strategy(), 0usize..6, prop::sample::select(vec![S_ET, S_TDB]), 101i128..10_000)
        .prop_map(|(off, s, dynamical, sep)| Case { off, src: UNIFORM[s], dynamical, sep })
        .boxed()
}

fn rev_strategy() -> BS<Case> {
    (off_strategy(), prop::sample::select(vec![S_ET, S_TDB]), 101i128..10_000)
        .prop_map(|(off, s, sep)| Case { off, src: s, dynamical: s, sep })
        .boxed()
}

fn periodic(s: usize, t: f64) -> f64 {
    if s == S_ET {
        et_periodic(t)
    } else {
        tdb_periodic(t)
    }
}

/// closed-form value of (dyn - TAI) in ns at dyn count `c` (ns past J2000 in the dynamical scale)
fn closed_form_ns(s: usize, c: i128) -> f64 {
    (32.184 + periodic(s, ns_to_s(c))) * 1e9
}

fn fwd_oracle(c: &Case) -> Verdict {
    // source count such that the instant is `off` past J2000 measured on the TAI axis
    let tai = j2000_ns() + c.off;
    let src_count = tai - zero_tai_ns(c.src);
    let e = Epoch::from_duration(mk(src_count), SCALES[c.src]);
    let ts = SCALES[c.dynamical];
    let r = lib!(e.to_time_scale(ts));
    ensure!(r.time_scale == ts, "result scale {:?}", r.time_scale);
    let got = count(r.duration);
    // forward: (dyn - TAI) vs closed form
    let diff = (got - c.off) as f64;
    let want = closed_form_ns(c.dynamical, got);
    ensure!(
        (diff - want).abs() <= 30.0,
        "{} J2000{:+} ns -> {}: {} - TAI = {} ns, closed form {} ns (error {} ns > 30)",
        SCALE_NAMES[c.src], c.off, SCALE_NAMES[c.dynamical], SCALE_NAMES[c.dynamical], diff, want, diff - want
    );
    // round trip back to the same uniform scale
    let back = lib!(r.to_time_scale(SCALES[c.src]));
    let err = count(back.duration) - src_count;
    ensure!(back.time_scale == SCALES[c.src] && err.abs() <= 20, "round trip {}->{}->{} off by {} ns (> 20)", SCALE_NAMES[c.src], SCALE_NAMES[c.dynamical], SCALE_NAMES[c.src], err);
    // order of instants more than 100 ns apart is preserved
    let e2 = Epoch::from_duration(mk(src_count + c.sep), SCALES[c.src]);
    let r2 = lib!(e2.to_time_scale(ts));
    ensure!(count(r2.duration) > got, "order not preserved for instants {} ns apart: {} then {}", c.sep, got, count(r2.duration));
    // a further conversion a minute or two later obeys the closed form just the same (nothing carried over from the
    // conversion before it)
    {
        let later = 91 * NS_S + (c.sep * 3_700_000) % (37 * NS_S);
        let e3 = Epoch::from_duration(mk(src_count + later), SCALES[c.src]);
        let got3 = count(lib!(e3.to_time_scale(ts)).duration);
        let diff3 = (got3 - c.off - later) as f64;
        let want3 = closed_form_ns(c.dynamical, got3);
        ensure!((diff3 - want3).abs() <= 30.0, "{} J2000{:+} ns -> {} right after a conversion {} s earlier: {} - TAI = {} ns, closed form {} ns (error {} ns > 30)", SCALE_NAMES[c.src], c.off + later, SCALE_NAMES[c.dynamical], later / NS_S, SCALE_NAMES[c.dynamical], diff3, want3, diff3 - want3);
    }
    // accessors consistent
    let (dur_acc, secs_acc, jde) = if c.dynamical == S_ET {
        (lib!(e.to_et_duration()), lib!(e.to_et_seconds()), lib!(e.to_jde_et_duration()))
    } else {
        (lib!(e.to_tdb_duration()), lib!(e.to_tdb_seconds()), lib!(e.to_jde_tdb_duration()))
    };
    ensure!(dur_acc.to_parts() == r.duration.to_parts(), "to_et/tdb_duration differs from to_time_scale");
    ensure!(secs_acc == lib!(r.duration.to_seconds()), "to_et/tdb_seconds differs from the duration's seconds");
    ensure!(count(jde) == got + 2_451_545 * NS_D, "to_jde_et/tdb_duration = {} want {}", count(jde), got + 2_451_545 * NS_D);
    // float-valued accessors of the dynamical reading: the converted count in days / centuries / JD days, to float precision
    {
        let (days, cent, jd_days) = if c.dynamical == S_ET {
            (lib!(e.to_et_days_since_j2000()), lib!(e.to_et_centuries_since_j2000()), lib!(e.to_jde_et_days()))
        } else {
            (lib!(e.to_tdb_days_since_j2000()), lib!(e.to_tdb_centuries_since_j2000()), lib!(e.to_jde_tdb_days()))
        };
        for (name, v, p, q) in [("days since J2000", days, got, NS_D), ("centuries since J2000", cent, got, NPC), ("JD days", jd_days, got + 2_451_545 * NS_D, NS_D)] {
            if let Err(m) = super::c17::check_float(name, v, p, q) {
                return Verdict::Fail(format!("{} J2000{:+} ns read in {}: {}", SCALE_NAMES[c.src], c.off, SCALE_NAMES[c.dynamical], m));
            }
        }
    }
    let far = c.off.abs() > 100 * 365 * NS_D;
    let class = if far { "|t|>100y" } else if c.src != S_TAI { "non-TAI-source" } else { "plain" };
    Verdict::Pass(class, class != "plain")
}

fn rev_oracle(c: &Case) -> Verdict {
    let s = c.src;
    let e = Epoch::from_duration(mk(c.off), SCALES[s]);
    let r = lib!(e.to_time_scale(TimeScale::TAI));
    ensure!(r.time_scale == TimeScale::TAI, "result scale {:?}", r.time_scale);
    let tai_off = count(r.duration) - j2000_ns();
    let diff = (c.off - tai_off) as f64;
    let want = closed_form_ns(s, c.off);
    ensure!(
        (diff - want).abs() <= 30.0,
        "{} count {} -> TAI: {} - TAI = {} ns, closed form {} ns (error {} ns > 30)",
        SCALE_NAMES[s], c.off, SCALE_NAMES[s], diff, want, diff - want
    );
    // round trip
    let back = lib!(r.to_time_scale(SCALES[s]));
    let err = count(back.duration) - c.off;
    ensure!(err.abs() <= 20, "round trip {}->TAI->{} off by {} ns (> 20)", SCALE_NAMES[s], SCALE_NAMES[s], err);
    // order preserved
    let e2 = Epoch::from_duration(mk(c.off + c.sep), SCALES[s]);
    let r2 = lib!(e2.to_time_scale(TimeScale::TAI));
    ensure!(count(r2.duration) > count(r.duration), "order not preserved for {} instants {} ns apart", SCALE_NAMES[s], c.sep);
    // constructors
    let built = if s == S_ET { lib!(Epoch::from_et_duration(mk(c.off))) } else { lib!(Epoch::from_tdb_duration(mk(c.off))) };
    ensure!(built.time_scale == SCALES[s] && count(built.duration) == c.off, "from_et/tdb_duration wrong");
    // the to_*_duration accessors of an ET/TDB epoch are its conversion into that scale
    for u in UNIFORM {
        let acc = lib!(crate::props::c05::accessor(&e, u));
        let conv = lib!(e.to_time_scale(SCALES[u]));
        ensure!(acc.to_parts() == conv.duration.to_parts(), "{} epoch: to_{}_duration accessor {:?} differs from to_time_scale {:?}", SCALE_NAMES[s], SCALE_NAMES[u].to_lowercase(), acc.to_parts(), conv.duration.to_parts());
    }
    // float-second constructors: x seconds after J2000 of that scale, truncated to ns (C18's semantics)
    let x = ns_to_s(c.off);
    let fe = if s == S_ET { lib!(Epoch::from_et_seconds(x)) } else { lib!(Epoch::from_tdb_seconds(x)) };
    ensure!(fe.time_scale == SCALES[s] && count(fe.duration) == f64_trunc_i128(x * 1e9), "from_et/tdb_seconds({:e}) has count {} in {:?}, want {}", x, count(fe.duration), fe.time_scale, f64_trunc_i128(x * 1e9));
    // into the other dynamical scale and into every uniform scale: the same instant (the model's TAI reading of the
    // source, re-expressed), each conversion within the statement's 30 ns -> 60 ns for the two legs ET <-> TDB
    let tai_m = dyn_to_tai(s, c.off);
    let other = if s == S_ET { S_TDB } else { S_ET };
    let ro = lib!(e.to_time_scale(SCALES[other]));
    ensure!(ro.time_scale == SCALES[other], "to_time_scale({}) of an {} epoch returns {:?}", SCALE_NAMES[other], SCALE_NAMES[s], ro.time_scale);
    let want_o = tai_to_dyn(other, tai_m);
    ensure!(
        (count(ro.duration) - want_o).abs() <= 60,
        "{} count {} -> {}: got count {}, the closed forms give {} (difference {} ns > 60)",
        SCALE_NAMES[s], c.off, SCALE_NAMES[other], count(ro.duration), want_o, count(ro.duration) - want_o
    );
    for u in UNIFORM {
        let conv = lib!(e.to_time_scale(SCALES[u]));
        let want_u = tai_m - zero_tai_ns(u);
        ensure!(
            conv.time_scale == SCALES[u] && (count(conv.duration) - want_u).abs() <= 30,
            "{} count {} -> {}: got count {} in {:?}, the closed form gives {} (difference {} ns > 30)",
            SCALE_NAMES[s], c.off, SCALE_NAMES[u], count(conv.duration), conv.time_scale, want_u, count(conv.duration) - want_u
        );
    }
    // the identical reading in the other dynamical scale, converted right afterwards, is another instant: its own closed form
    let twin = Epoch::from_duration(mk(c.off), SCALES[other]);
    let rt = lib!(twin.to_time_scale(TimeScale::TAI));
    let diff_t = (c.off - (count(rt.duration) - j2000_ns())) as f64;
    let want_t = closed_form_ns(other, c.off);
    ensure!(
        (diff_t - want_t).abs() <= 30.0,
        "{} count {} -> TAI (right after the same reading in {}): {} - TAI = {} ns, closed form {} ns (error {} ns > 30)",
        SCALE_NAMES[other], c.off, SCALE_NAMES[s], SCALE_NAMES[other], diff_t, want_t, diff_t - want_t
    );
    // the text form "SEC x ET" / "SEC x TDB" (x seconds past J2000 in the scale itself): if accepted, the same epoch as
    // the float-second constructor
    let txt = format!("SEC {} {}", x, SCALE_NAMES[s]);
    if let Ok(pe) = lib!(<Epoch as std::str::FromStr>::from_str(&txt)) {
        ensure!(
            pe.time_scale == SCALES[s] && pe.duration.to_parts() == fe.duration.to_parts(),
            "{:?} parses to count {} in {:?}, want count {} in {} ({} counts from J2000 in the scale itself)",
            txt, count(pe.duration), pe.time_scale, count(fe.duration), SCALE_NAMES[s], SCALE_NAMES[s]
        );
    }
    Verdict::Pass("reverse", true)
}

// ---------------------------------------------------------------- fixed facts (enumerated)
#[derive(Clone, Debug, Serialize, Deserialize)]
pub struct Fact {
    pub k: usize,
}

fn fact_enum(_t: Tier, shard: usize, sink: &mut dyn FnMut(Fact) -> bool) {
    for k in 0..5 {
        if k % SHARDS == shard && !sink(Fact { k }) {
            return;
        }
    }
}

fn fact_oracle(c: &Fact) -> Verdict {
    match c.k {
        0 | 1 => {
            let s = if c.k == 0 { S_ET } else { S_TDB };
            let e = Epoch::from_duration(Duration::ZERO, SCALES[s]);
            let txt = lib!(format!("{e}"));
            ensure!(txt == format!("2000-01-01T12:00:00 {}", SCALE_NAMES[s]), "zero epoch of {} prints {:?}", SCALE_NAMES[s], txt);
        }
        2 | 3 => {
            // J2000 TAI -> ET/TDB is 32.184 s + periodic term at t ~ 32.184
            let s = if c.k == 2 { S_ET } else { S_TDB };
            let e = Epoch::from_duration(mk(j2000_ns()), TimeScale::TAI);
            let r = lib!(e.to_time_scale(SCALES[s]));
            let want = closed_form_ns(s, count(r.duration));
            ensure!((count(r.duration) as f64 - want).abs() <= 30.0, "J2000 TAI -> {} = {} ns, closed form {}", SCALE_NAMES[s], count(r.duration), want);
        }
        4 => {
            // one Julian year later the periodic terms nearly repeat (sanity of the rate constants)
            let y = 31_557_600 * NS_S;
            for s in [S_ET, S_TDB] {
                let a = lib!(Epoch::from_duration(mk(j2000_ns()), TimeScale::TAI).to_time_scale(SCALES[s]));
                let b = lib!(Epoch::from_duration(mk(j2000_ns() + y), TimeScale::TAI).to_time_scale(SCALES[s]));
                let d = count(b.duration) - count(a.duration) - y;
                ensure!(d.abs() < 100_000, "{}: periodic term changes by {} ns over one Julian year", SCALE_NAMES[s], d);
            }
        }
        _ => {
            // TT - TAI is exactly 32.184 s (the constant part of both closed forms)
            let e = Epoch::from_duration(mk(j2000_ns()), TimeScale::TAI);
            let r = lib!(e.to_time_scale(TimeScale::TT));
            ensure!(count(r.duration) - j2000_ns() == 32_184_000_000, "TT - TAI = {} ns", count(r.duration) - j2000_ns());
        }
    }
    Verdict::Pass("fact", true)
}

pub fn subs() -> Vec<Box<dyn DynSub>> {
    vec![
        sub(Sub { name: "c07.forward", source: Source::Gen(fwd_strategy, 3_000_000, 30_000_000), oracle: fwd_oracle, known: no_known, hang_is_violation: false }),
        sub(Sub { name: "c07.reverse", source: Source::Gen(rev_strategy, 2_000_000, 20_000_000), oracle: rev_oracle, known: no_known, hang_is_violation: false }),
        sub(Sub { name: "c07.facts", source: Source::Enum(fact_enum, |_| true), oracle: fact_oracle, known: no_known, hang_is_violation: false }),
        crate::props::fuzzsub::fc07(),
    ]
}

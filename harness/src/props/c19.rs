//! C19 — strftime-style formatting prints the right field per token; consts match docs
use crate::engine::*;
use crate::gen::*;
use crate::model::*;
use crate::{ensure, lib};
use hifitime::efmt::consts::*;
use hifitime::efmt::{Format, Formatter};
use hifitime::Epoch;
use proptest::prelude::*;
use serde::{Deserialize, Serialize};
use std::str::FromStr;

pub const RULE: &str = "generated formats of 1-16 non-optional tokens from {%Y %m %d %H %M %S %f %j %A %a %B %b %T %z} in any order with 0-2 separators (printable ASCII other than % and ?, one in ten a character of two to four bytes) after each token but the last, built with Format::from_str; x generated epochs with year 0001-9999 in nine scales (every time-of-day class) x time-zone offsets -23:59..+23:59 through Formatter::with_timezone; the nine predefined constants (only formats with optional tokens) enumerated against their documented strings; oracle = model rendering token by token from civil-from-days of the (offset-shifted) count in the epoch's own scale, string equality; parse-back for UTC epochs on the sub-family stated in ASSUMPTIONS; non-trivial = >= 4 tokens, a name token, an offset != 0, scale != UTC, two separators, or time of day within 1 us of midnight; distinct = distinct case tuples (hash set, capped: lower bound)";

pub const ASSUMPTIONS: &[&str] = &[
    "weekday and day of year are those of the printed Gregorian date (the epoch's own time scale, after the offset shift)",
    "ISO8601 (non-optional %f) prints nine fraction digits even when zero, so it equals Display exactly when the fraction is non-zero and Display with '.000000000' inserted otherwise (the two clauses of the statement can only both hold under this reading)",
    "parse-back is asserted for formats that contain year, month (number or name), day, hour, minute, second (and %f, or the epoch has no fraction), no %z, the date given either as month and day or as %j day of year (not both), with 1-2 non-alphanumeric separators (not + - .) after every token but the last and %T only in last position",
    "not asserted: %y %J %w (documented tokens outside the statement's list)",
];

const TOKENS: [&str; 14] = ["Y", "m", "d", "H", "M", "S", "f", "j", "A", "a", "B", "b", "T", "z"];

#[derive(Clone, Debug, Serialize, Deserialize)]
pub struct Fmt {
    /// (token index, separators after it)
    pub items: Vec<(usize, String)>,
    /// ns since 1900-01-01T00:00:00 in the scale's own calendar
    pub g: i128,
    pub s: usize,
    /// offset in minutes (0 = plain Formatter::new)
    pub off_min: i32,
}

fn sep_strategy(parseable: bool) -> BS<String> {
    let chars: Vec<char> = (0x20u8..0x7f)
        .map(|b| b as char)
        .filter(|c| *c != '%' && *c != '?')
        .filter(|c| !parseable || (!c.is_ascii_alphanumeric() && *c != '+' && *c != '-' && *c != '.'))
        .collect();
    // separators are `char`s: characters of two, three and four bytes are separators like any other
    let wide: Vec<char> = vec!['\u{b7}', '\u{e9}', '\u{2013}', '\u{2032}', '\u{20ac}', '\u{65e5}', '\u{3000}', '\u{1f600}', '\u{a0}', '\u{7ff}', '\u{800}', '\u{ffff}', '\u{10000}'];
    let one = prop_oneof![9 => prop::sample::select(chars), 1 => prop::sample::select(wide)];
    if parseable {
        prop_oneof![3 => one.clone().prop_map(|c| c.to_string()), 1 => (one.clone(), one).prop_map(|(a, b)| format!("{a}{b}"))].boxed()
    } else {
        prop_oneof![2 => Just(String::new()), 4 => one.clone().prop_map(|c| c.to_string()), 2 => (one.clone(), one).prop_map(|(a, b)| format!("{a}{b}"))].boxed()
    }
}

fn fmt_strategy() -> BS<Fmt> {
    let free = prop::collection::vec((0usize..14, sep_strategy(false)), 1..=16).boxed();
    // the largest formats: 15 or 16 tokens, two separator characters after (almost) every one, and the tokens
    // with the longest renderings (%f, %A, %B, %z) favoured: format strings of up to 62 bytes, output up to 174
    let two = (prop::sample::select((0x20u8..0x7f).map(|b| b as char).filter(|c| *c != '%' && *c != '?').collect::<Vec<char>>()), prop::sample::select((0x20u8..0x7f).map(|b| b as char).filter(|c| *c != '%' && *c != '?').collect::<Vec<char>>()), 0u8..12)
        .prop_map(|(a, b, k)| if k == 0 { a.to_string() } else { format!("{a}{b}") });
    let long_tok = prop_oneof![3 => prop::sample::select(vec![6usize, 8, 10, 13]), 1 => 0usize..14];
    let largest = prop::collection::vec((long_tok, two), 15..=16).boxed();
    let items = wunion(vec![(7, free), (1, largest)]);
    let off = prop_oneof![3 => Just(0i32), 2 => -1439i32..=1439, 1 => (-23i32..=23).prop_map(|h| h * 60)];
    (items, ns1900_0001_9999(), 0usize..9, off).prop_map(|(items, g, s, off_min)| Fmt { items, g, s, off_min }).boxed()
}

fn format_string(items: &[(usize, String)]) -> String {
    let mut f = String::new();
    for (i, (t, sep)) in items.iter().enumerate() {
        f.push('%');
        f.push_str(TOKENS[*t]);
        if i + 1 < items.len() {
            f.push_str(sep);
        }
    }
    f
}

fn render_token(t: usize, g: &Greg, s: usize, off_min: i32) -> String {
    match TOKENS[t] {
        "Y" => fmt_year(g.y),
        "m" => format!("{:02}", g.m),
        "d" => format!("{:02}", g.d),
        "H" => format!("{:02}", g.hh),
        "M" => format!("{:02}", g.mm),
        "S" => format!("{:02}", g.ss),
        "f" => format!("{:09}", g.ns),
        "j" => format!("{:03}", day_of_year(g)),
        "A" => WEEKDAY_LONG[weekday_of_day1900(g.day1900) as usize].to_string(),
        "a" => WEEKDAY_SHORT[weekday_of_day1900(g.day1900) as usize].to_string(),
        "B" => MONTH_LONG[(g.m - 1) as usize].to_string(),
        "b" => MONTH_SHORT[(g.m - 1) as usize].to_string(),
        "T" => SCALE_NAMES[s].to_string(),
        "z" => {
            let a = off_min.abs();
            format!("{}{:02}:{:02}", if off_min < 0 { '-' } else { '+' }, a / 60, a % 60)
        }
        _ => unreachable!(),
    }
}

fn model_output(items: &[(usize, String)], g: &Greg, s: usize, off_min: i32) -> String {
    let mut out = String::new();
    for (i, (t, sep)) in items.iter().enumerate() {
        out.push_str(&render_token(*t, g, s, off_min));
        if i + 1 < items.len() {
            out.push_str(sep);
        }
    }
    out
}

pub fn fmt_oracle(c: &Fmt) -> Verdict {
    let fs = format_string(&c.items);
    let format = match lib!(Format::from_str(&fs)) {
        Ok(f) => f,
        Err(e) => return Verdict::Fail(format!("Format::from_str({:?}) fails: {:?}", fs, e)),
    };
    let cnt = c.g - greg_offset_ns(c.s);
    let e = Epoch::from_duration(mk(cnt), SCALES[c.s]);
    let shifted = c.g + c.off_min as i128 * NS_MIN;
    let g = greg_of_ns1900(shifted);
    if !(1..=9999).contains(&g.y) {
        return Verdict::Skip("offset moves the date outside years 0001-9999");
    }
    let want = model_output(&c.items, &g, c.s, c.off_min);
    let got = if c.off_min == 0 {
        lib!(format!("{}", Formatter::new(e, format)))
    } else {
        lib!(format!("{}", Formatter::with_timezone(e, mk(c.off_min as i128 * NS_MIN), format)))
    };
    ensure!(got == want, "format {:?} on {} count {} offset {} min: got {:?}, want {:?}", fs, SCALE_NAMES[c.s], cnt, c.off_min, got, want);
    if c.off_min != 0 {
        // zero offset through with_timezone equals Formatter::new
        let z = lib!(format!("{}", Formatter::with_timezone(e, mk(0), format)));
        let n = lib!(format!("{}", Formatter::new(e, format)));
        ensure!(z == n, "with_timezone(0) {:?} differs from new {:?}", z, n);
    }
    let tod = shifted.rem_euclid(NS_D);
    let name = c.items.iter().any(|(t, _)| (8..12).contains(t));
    let class = if tod < 1000 || tod >= NS_D - 1000 {
        "within-1us-of-midnight"
    } else if c.off_min != 0 {
        "offset"
    } else if name {
        "name-token"
    } else if c.items.len() >= 4 {
        ">=4-tokens"
    } else if c.s != S_UTC {
        "scale!=UTC"
    } else if c.items.iter().any(|(_, s)| s.len() == 2) {
        "two-separators"
    } else {
        "plain"
    };
    Verdict::Pass(class, class != "plain")
}

// ---------------------------------------------------------------- Formatter::to_time_scale
#[derive(Clone, Debug, Serialize, Deserialize)]
pub struct ToTs {
    pub g: i128,
    pub s: usize,
    pub to: usize,
}

fn tots_strategy() -> BS<ToTs> {
    (ns1900_0001_9999(), 0usize..9, 0usize..9).prop_map(|(g, s, to)| ToTs { g, s, to }).boxed()
}

fn tots_oracle(c: &ToTs) -> Verdict {
    let cnt = c.g - greg_offset_ns(c.s);
    let e = Epoch::from_duration(mk(cnt), SCALES[c.s]);
    let a = lib!(format!("{}", Formatter::to_time_scale(e, ISO8601, SCALES[c.to])));
    let conv = lib!(e.to_time_scale(SCALES[c.to]));
    let b = lib!(format!("{}", Formatter::new(conv, ISO8601)));
    ensure!(a == b, "Formatter::to_time_scale prints {:?}, Formatter::new(epoch.to_time_scale(..)) prints {:?}", a, b);
    // against the model where the conversion is exact
    let exact = |s: usize| s != S_ET && s != S_TDB;
    if exact(c.s) && exact(c.to) {
        if let Some(c2) = from_tai(c.to, to_tai(c.s, cnt)) {
            let g = greg_of_ns1900(c2 + greg_offset_ns(c.to));
            if (1..=9999).contains(&g.y) {
                let want = format!("{}-{:02}-{:02}T{:02}:{:02}:{:02}.{:09} {}", fmt_year(g.y), g.m, g.d, g.hh, g.mm, g.ss, g.ns, SCALE_NAMES[c.to]);
                ensure!(a == want, "Formatter::to_time_scale({}) of {} count {}: got {:?}, want {:?}", SCALE_NAMES[c.to], SCALE_NAMES[c.s], cnt, a, want);
            }
        }
    }
    Verdict::Pass(if c.s != c.to { "converted" } else { "same-scale" }, c.s != c.to)
}

// ---------------------------------------------------------------- constants (enumerated) on generated epochs
#[derive(Clone, Debug, Serialize, Deserialize)]
pub struct Const {
    pub k: usize,
    pub g: i128,
    pub s: usize,
    pub off_min: i32,
}

fn const_strategy() -> BS<Const> {
    let g = prop_oneof![3 => ns1900_0001_9999(), 2 => (day_0001_9999(), 0i128..86_400).prop_map(|(d, s)| d as i128 * NS_D + s * NS_S)];
    (0usize..9, g, prop_oneof![1 => Just(S_UTC), 2 => 0usize..9], prop_oneof![2 => Just(0i32), 1 => -1439i32..=1439])
        .prop_map(|(k, g, s, off_min)| Const { k, g, s, off_min })
        .boxed()
}

fn const_of(k: usize) -> (&'static str, Format, Option<&'static str>) {
    match k {
        0 => ("ISO8601", ISO8601, Some("%Y-%m-%dT%H:%M:%S.%f %T")),
        1 => ("ISO8601_FLEX", ISO8601_FLEX, Some("%Y-%m-%dT%H:%M:%S.%f? %T?")),
        2 => ("RFC3339", RFC3339, Some("%Y-%m-%dT%H:%M:%S.%f%z")),
        3 => ("RFC3339_FLEX", RFC3339_FLEX, Some("%Y-%m-%dT%H:%M:%S.%f?%z")),
        4 => ("ISO8601_DATE", ISO8601_DATE, Some("%Y-%m-%d")),
        5 => ("ISO8601_ORDINAL", ISO8601_ORDINAL, Some("%Y-%j")),
        6 => ("RFC2822", RFC2822, Some("%a, %d %b %Y %H:%M:%S")),
        7 => ("RFC2822_LONG", RFC2822_LONG, Some("%A, %d %B %Y %H:%M:%S")),
        _ => ("ISO8601_STD", ISO8601_STD, None),
    }
}

pub fn const_oracle(c: &Const) -> Verdict {
    let (name, konst, doc) = const_of(c.k);
    if let Some(d) = doc {
        match lib!(Format::from_str(d)) {
            Ok(f) => ensure!(f == konst, "{} differs from Format::from_str({:?}): {:?} vs {:?}", name, d, konst, f),
            Err(e) => return Verdict::Fail(format!("documented string {:?} of {} does not parse: {:?}", d, name, e)),
        }
    }
    let cnt = c.g - greg_offset_ns(c.s);
    let e = Epoch::from_duration(mk(cnt), SCALES[c.s]);
    // every constant is also printed with a time-zone offset (Formatter::with_timezone shifts the fields printed; only
    // the RFC 3339 formats print the offset itself)
    let off_min = c.off_min;
    let shifted = c.g + off_min as i128 * NS_MIN;
    let g = greg_of_ns1900(shifted);
    if !(1..=9999).contains(&g.y) {
        return Verdict::Skip("offset moves the date outside years 0001-9999");
    }
    let date = format!("{}-{:02}-{:02}", fmt_year(g.y), g.m, g.d);
    let time = format!("{:02}:{:02}:{:02}", g.hh, g.mm, g.ss);
    let frac = format!(".{:09}", g.ns);
    let optfrac = if g.ns != 0 { frac.clone() } else { String::new() };
    let z = render_token(13, &g, c.s, off_min);
    let wd = weekday_of_day1900(g.day1900) as usize;
    let want = match c.k {
        0 => format!("{date}T{time}{frac} {}", SCALE_NAMES[c.s]),
        1 => format!("{date}T{time}{optfrac}{}", if c.s != S_UTC { format!(" {}", SCALE_NAMES[c.s]) } else { String::new() }),
        2 => format!("{date}T{time}{frac}{z}"),
        3 => format!("{date}T{time}{optfrac}{z}"),
        4 => date.clone(),
        5 => format!("{}-{:03}", fmt_year(g.y), day_of_year(&g)),
        6 => format!("{}, {:02} {} {} {time}", WEEKDAY_SHORT[wd], g.d, MONTH_SHORT[(g.m - 1) as usize], fmt_year(g.y)),
        7 => format!("{}, {:02} {} {} {time}", WEEKDAY_LONG[wd], g.d, MONTH_LONG[(g.m - 1) as usize], fmt_year(g.y)),
        _ => format!("{date}T{time}{frac}"),
    };
    let got = if off_min == 0 { lib!(format!("{}", Formatter::new(e, konst))) } else { lib!(format!("{}", Formatter::with_timezone(e, mk(off_min as i128 * NS_MIN), konst))) };
    ensure!(got == want, "{} on {} count {} (offset {} min): got {:?}, want {:?}", name, SCALE_NAMES[c.s], cnt, off_min, got, want);
    if c.k == 0 && off_min == 0 {
        // ISO 8601 formatter vs default display
        let disp = lib!(format!("{e}"));
        if g.ns != 0 {
            ensure!(got == disp, "ISO8601 formatter output {:?} differs from Display {:?}", got, disp);
        } else {
            ensure!(got.replace(".000000000", "") == disp, "ISO8601 formatter output {:?} is not Display {:?} with the zero fraction written out", got, disp);
        }
        // to_isoformat: the first 26 characters of the ISO8601_STD rendering
        let iso = lib!(e.to_isoformat());
        let std = format!("{date}T{time}{frac}");
        ensure!(iso == std[..26.min(std.len())], "to_isoformat {:?}, want {:?}", iso, &std[..26.min(std.len())]);
    }
    if c.k == 8 && off_min == 0 {
        let iso = lib!(format!("{}", Formatter::new(e, ISO8601)));
        ensure!(iso == format!("{} {}", got, SCALE_NAMES[c.s]), "ISO8601_STD output {:?} is not the ISO8601 output {:?} without the time scale", got, iso);
    }
    Verdict::Pass(name, true)
}

// ---------------------------------------------------------------- parse-back
#[derive(Clone, Debug, Serialize, Deserialize)]
pub struct Back {
    pub items: Vec<(usize, String)>,
    /// UTC ns since 1900-01-01T00:00:00
    pub g: i128,
}

/// the ordinal family: year + day of year instead of month and day
fn back_ordinal_strategy() -> BS<Back> {
    (Just(vec![0usize, 7, 3, 4, 5]).prop_shuffle(), any::<bool>(), any::<bool>(), prop::collection::vec(sep_strategy(true), 10), ns1900_0001_9999())
        .prop_map(|(mut order, with_f, with_t, seps, g)| {
            if with_f {
                let i = order.iter().position(|t| *t == 5).unwrap();
                order.insert(i + 1, 6);
            }
            if with_t {
                order.push(12);
            }
            let g = if with_f { g } else { g - g.rem_euclid(NS_S) };
            let items = order.into_iter().enumerate().map(|(i, t)| (t, seps[i % seps.len()].clone())).collect();
            Back { items, g }
        })
        .boxed()
}

fn back_strategy() -> BS<Back> {
    // a permutation of the six mandatory fields (month as number or name), optional %f, %A/%a, %T last
    let month = prop::sample::select(vec![1usize, 10, 11]); // m, B, b
    (Just(vec![0usize, 99, 2, 3, 4, 5]).prop_shuffle(), month, any::<bool>(), prop_oneof![3 => Just(None), 1 => Just(Some(8usize)), 1 => Just(Some(9usize))], any::<bool>(), prop::collection::vec(sep_strategy(true), 10), ns1900_0001_9999(), any::<prop::sample::Index>())
        .prop_map(|(mut order, month, with_f, wd, with_t, seps, g, pos)| {
            for t in order.iter_mut() {
                if *t == 99 {
                    *t = month;
                }
            }
            if let Some(w) = wd {
                let i = pos.index(order.len() + 1);
                order.insert(i, w);
            }
            if with_f {
                // %f right after %S
                let i = order.iter().position(|t| *t == 5).unwrap();
                order.insert(i + 1, 6);
            }
            if with_t {
                order.push(12);
            }
            let g = if with_f { g } else { g - g.rem_euclid(NS_S) };
            let items = order.into_iter().enumerate().map(|(i, t)| (t, seps[i % seps.len()].clone())).collect();
            Back { items, g }
        })
        .boxed()
}

pub fn back_oracle(c: &Back) -> Verdict {
    let fs = format_string(&c.items);
    let format = match lib!(Format::from_str(&fs)) {
        Ok(f) => f,
        Err(e) => return Verdict::Fail(format!("Format::from_str({:?}) fails: {:?}", fs, e)),
    };
    let e = Epoch::from_duration(mk(c.g), SCALES[S_UTC]);
    let g = greg_of_ns1900(c.g);
    let txt = lib!(format!("{}", Formatter::new(e, format)));
    let want_txt = model_output(&c.items, &g, S_UTC, 0);
    ensure!(txt == want_txt, "format {:?}: got {:?}, want {:?}", fs, txt, want_txt);
    let parsed = lib!(format.parse(&txt));
    match parsed {
        Ok(p) => ensure!(p.time_scale == e.time_scale && p.duration.to_parts() == e.duration.to_parts(), "format {:?}: {:?} parses to {} (count {}), want count {}", fs, txt, p, count(p.duration), c.g),
        Err(err) => return Verdict::Fail(format!("format {:?}: its own output {:?} does not parse: {:?}", fs, txt, err)),
    }
    let p2 = lib!(Epoch::from_format_str(&txt, &fs));
    ensure!(matches!(&p2, Ok(p) if p.duration.to_parts() == e.duration.to_parts()), "Epoch::from_format_str({:?}, {:?}) = {:?}", txt, fs, p2.map(|e| format!("{e}")));
    let p3 = lib!(Epoch::from_str_with_format(&txt, format));
    ensure!(matches!(&p3, Ok(p) if p.duration.to_parts() == e.duration.to_parts()), "Epoch::from_str_with_format differs");
    let name = c.items.iter().any(|(t, _)| (8..12).contains(t));
    Verdict::Pass(if name { "name-token" } else { "numeric-only" }, true)
}

// ---------------------------------------------------------------- month and weekday names (exhaustive)
#[derive(Clone, Debug, Serialize, Deserialize)]
pub struct Name {
    /// 0 month, 1 weekday
    pub kind: u8,
    pub idx: usize,
    /// 0 full name, 1 three-letter name
    pub short: bool,
    /// 0 as printed, 1 lower case, 2 upper case, 3 alternating case, 4 with surrounding blanks
    pub casing: u8,
}

fn name_enum(_t: Tier, shard: usize, sink: &mut dyn FnMut(Name) -> bool) {
    let mut i = 0;
    for kind in 0..2u8 {
        for idx in 0..(if kind == 0 { 12 } else { 7 }) {
            for short in [false, true] {
                for casing in 0..5u8 {
                    i += 1;
                    if i % SHARDS == shard && !sink(Name { kind, idx, short, casing }) {
                        return;
                    }
                }
            }
        }
    }
}

fn name_oracle(c: &Name) -> Verdict {
    let printed = match (c.kind, c.short) {
        (0, false) => MONTH_LONG[c.idx],
        (0, true) => MONTH_SHORT[c.idx],
        (_, false) => WEEKDAY_LONG[c.idx],
        (_, true) => WEEKDAY_SHORT[c.idx],
    };
    let txt = match c.casing {
        0 => printed.to_string(),
        1 => printed.to_lowercase(),
        2 => printed.to_uppercase(),
        3 => printed.chars().enumerate().map(|(i, ch)| if i % 2 == 0 { ch.to_ascii_lowercase() } else { ch.to_ascii_uppercase() }).collect(),
        _ => format!(" {printed} "),
    };
    // whatever spelling is accepted denotes the month / weekday it spells; the printed spelling is accepted
    if c.kind == 0 {
        let r = lib!(hifitime::MonthName::from_str(&txt));
        if let Ok(m) = r {
            ensure!(m as u8 as usize == c.idx + 1 || format!("{m}") == MONTH_LONG[c.idx], "MonthName::from_str({:?}) = {:?}, want {}", txt, m, MONTH_LONG[c.idx]);
            ensure!(format!("{m}") == MONTH_LONG[c.idx] && format!("{m:x}") == MONTH_SHORT[c.idx], "MonthName::from_str({:?}) prints as {} / {:x}, want {} / {}", txt, m, m, MONTH_LONG[c.idx], MONTH_SHORT[c.idx]);
        }
        ensure!(c.casing != 0 || r.is_ok(), "the printed month name {:?} is not accepted", txt);
        // and through a format: the date built has that month
        if r.is_ok() && c.casing <= 2 {
            let f = if c.short { "%d %b %Y" } else { "%d %B %Y" };
            let e = lib!(Epoch::from_format_str(&format!("15 {txt} 2015"), f));
            match e {
                Ok(e) => {
                    let (y, m, d, ..) = e.to_gregorian_utc();
                    ensure!((y, m as usize, d) == (2015, c.idx + 1, 15), "\"15 {} 2015\" with {:?} builds {}-{}-{}", txt, f, y, m, d);
                }
                Err(err) => return Verdict::Fail(format!("\"15 {} 2015\" with {:?} fails: {:?}", txt, f, err)),
            }
        }
    } else {
        let r = lib!(hifitime::Weekday::from_str(&txt));
        if let Ok(w) = r {
            ensure!(format!("{w}") == WEEKDAY_LONG[c.idx] && format!("{w:x}") == WEEKDAY_SHORT[c.idx], "Weekday::from_str({:?}) prints as {} / {:x}, want {} / {}", txt, w, w, WEEKDAY_LONG[c.idx], WEEKDAY_SHORT[c.idx]);
        }
        ensure!(c.casing != 0 || r.is_ok(), "the printed weekday name {:?} is not accepted", txt);
    }
    Verdict::Pass(if c.casing == 0 { "as-printed" } else { "other-casing" }, true)
}

pub fn subs() -> Vec<Box<dyn DynSub>> {
    vec![
        sub(Sub { name: "c19.format", source: Source::Gen(fmt_strategy, 1_200_000, 15_000_000), oracle: fmt_oracle, known: no_known, hang_is_violation: false }),
        sub(Sub { name: "c19.to_time_scale", source: Source::Gen(tots_strategy, 240_000, 2_000_000), oracle: tots_oracle, known: no_known, hang_is_violation: false }),
        sub(Sub { name: "c19.constants", source: Source::Gen(const_strategy, 600_000, 5_000_000), oracle: const_oracle, known: no_known, hang_is_violation: false }),
        sub(Sub { name: "c19.parse_back_ordinal", source: Source::Gen(back_ordinal_strategy, 200_000, 3_000_000), oracle: back_oracle, known: no_known, hang_is_violation: false }),
        sub(Sub { name: "c19.parse_back", source: Source::Gen(back_strategy, 600_000, 5_000_000), oracle: back_oracle, known: no_known, hang_is_violation: false }),
        sub(Sub { name: "c19.names", source: Source::Enum(name_enum, |_| true), oracle: name_oracle, known: no_known, hang_is_violation: false }),
        crate::props::fuzzsub::c19_fuzz(),
        crate::props::fuzzsub::fc19(),
    ]
}

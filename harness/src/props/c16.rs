//! C16 — Epoch weekday is the civil weekday of its date; weekday arithmetic is mod 7
use crate::engine::*;
use crate::gen::*;
use crate::model::*;
use crate::props::c08::enum_days;
use crate::{ensure, lib};
use hifitime::{Epoch, Weekday};
use proptest::prelude::*;
use serde::{Deserialize, Serialize};

pub const RULE: &str = "exhaustive: all 7 x 256 weekday/u8 combinations for + - += -= and From<u8>/From<i8> (all 256 i8 values), all 49 weekday pairs for Weekday + Weekday and Weekday - Weekday; every calendar day of years 0001-9999 x {first ns, last ns, hashed time of day} x scales (quick: one scale and one time-of-day class per day, rotating; thorough: all) for weekday(), weekday_utc(), next(), previous() with a rotating target weekday; plus generated epochs with times of day within 1 us of midnight of their own calendar and, in every scale, within 2 us of a TAI / UTC / TT midnight; oracle = integer arithmetic mod 7 and the civil weekday of the model's TAI / UTC date (1900-01-01 = Monday); non-trivial = integer >= 7 (wraps), date before 1900, time of day within 1 us of midnight, or scale != TAI";

pub const ASSUMPTIONS: &[&str] = &[
    "weekday() is compared with the civil weekday of the model's TAI date of the instant, weekday_utc() with that of the model's UTC date; ET/TDB epochs are skipped within 100 ns of a TAI/UTC/TT midnight (their conversion is required by C07 to be accurate to 30 ns, not exact)",
    "next(w)/previous(w): exactly k whole days in the epoch's own scale with k = ((w - weekday(e)) mod 7) or 7; the result's weekday() is w except within 11 s of a TAI midnight, where the offset change at a leap entry inside the interval (10 s on 1972-01-01, 1 s afterwards) can move the TAI date",
    "next/previous_weekday_at_midnight/_at_noon are anchored but not defined by the statement; asserted is only their documented construction (next/previous, then the time of day replaced by 00:00:00 / 12:00:00 counted from the scale's reference epoch) and only for results on or after that reference epoch, where 'time of day' of a count is unambiguous",
    "weekday_in_time_scale is asserted for TAI, UTC and TT only (its documentation: correct only if the scale's reference epoch is a Monday)",
];

const WD: [Weekday; 7] = [Weekday::Monday, Weekday::Tuesday, Weekday::Wednesday, Weekday::Thursday, Weekday::Friday, Weekday::Saturday, Weekday::Sunday];

fn idx(w: Weekday) -> i64 {
    WD.iter().position(|x| *x == w).unwrap() as i64
}

// ---------------------------------------------------------------- arithmetic (exhaustive)
#[derive(Clone, Debug, Serialize, Deserialize)]
pub struct Arith {
    pub w: u8,
    pub n: u8,
}

fn arith_enum(_t: Tier, shard: usize, sink: &mut dyn FnMut(Arith) -> bool) {
    for w in 0..7u8 {
        for n in 0..=255u8 {
            if (w as usize * 256 + n as usize) % SHARDS == shard && !sink(Arith { w, n }) {
                return;
            }
        }
    }
}

fn arith_oracle(c: &Arith) -> Verdict {
    let w = WD[c.w as usize];
    let n = c.n;
    let add = lib!(w + n);
    ensure!(idx(add) == (c.w as i64 + n as i64).rem_euclid(7), "{:?} + {} = {:?}", w, n, add);
    let sub = lib!(w - n);
    ensure!(idx(sub) == (c.w as i64 - n as i64).rem_euclid(7), "{:?} - {} = {:?}", w, n, sub);
    let adda = lib!({
        let mut x = w;
        x += n;
        x
    });
    ensure!(adda == add, "+= differs from +");
    let suba = lib!({
        let mut x = w;
        x -= n;
        x
    });
    ensure!(suba == sub, "-= differs from -");
    if c.w == 0 {
        let fu = lib!(Weekday::from(n));
        ensure!(idx(fu) == (n as i64).rem_euclid(7), "Weekday::from({}u8) = {:?}", n, fu);
        let i = n as i8;
        let fi = lib!(Weekday::from(i));
        ensure!(idx(fi) == (i as i64).rem_euclid(7), "Weekday::from({}i8) = {:?}", i, fi);
        let back: u8 = lib!(u8::from(fu));
        ensure!(back as i64 == (n as i64).rem_euclid(7), "u8::from(Weekday) wrong");
    }
    if n < 7 {
        // all 49 pairs
        let v = WD[n as usize];
        let s = lib!(w + v);
        ensure!(idx(s) == (c.w as i64 + n as i64).rem_euclid(7), "{:?} + {:?} = {:?}", w, v, s);
        let d = lib!(w - v);
        // 0-6 days from w to the next occurrence of v
        let want = (n as i64 - c.w as i64).rem_euclid(7);
        ensure!(count(d) == want as i128 * NS_D, "{:?} - {:?} = {} ns, want {} days", w, v, count(d), want);
    }
    Verdict::Pass(if n >= 7 { "wraps" } else { "in-range" }, true)
}

// ---------------------------------------------------------------- epoch weekday
#[derive(Clone, Debug, Serialize, Deserialize)]
pub struct Wd {
    /// ns since 1900-01-01T00:00:00 in the scale's own calendar
    pub g: i128,
    pub s: usize,
    pub target: u8,
}

fn wd_enum(tier: Tier, shard: usize, sink: &mut dyn FnMut(Wd) -> bool) {
    enum_days(tier, shard, &mut |day, s, tod, _full| sink(Wd { g: day as i128 * NS_D + tod, s, target: (day.div_euclid(7).rem_euclid(7)) as u8 }));
}

fn wd_strategy() -> BS<Wd> {
    let g = wunion(vec![
        (4, (day_0001_9999(), prop_oneof![(0i128..2000), (0i128..2000).prop_map(|d| NS_D - 1 - d), (0i128..NS_D)]).prop_map(|(d, t)| d as i128 * NS_D + t).boxed()),
        (2, ns1900_0001_9999()),
        (1, (0usize..28, near_offset()).prop_map(|(i, off)| leap_entries_ns()[i].0 + off).boxed()),
        // +-2^k ns from 1900 (+- 40 s, and up to a day later): where 64-bit nanosecond counts end
        (1, (40u32..70, any::<bool>(), prop_oneof![2 => near_offset(), 1 => (0i128..NS_D)]).prop_map(|(k, neg, off)| (if neg { -(1i128 << k) } else { 1i128 << k }) + off).boxed()),
    ]);
    let free = (g, 0usize..9, 0u8..7).prop_map(|(g, s, target)| Wd { g, s, target }).boxed();
    // instants within 2 us of a TAI / UTC / TT midnight, expressed in every scale (for an epoch stored in
    // another scale the accessor's midnight is not a midnight of its own calendar)
    let near_accessor_midnight = (day_0001_9999(), -2000i128..2000, 0usize..3, 0usize..9, 0u8..7)
        .prop_map(|(day, off, which, s, target)| {
            let axis = [S_TAI, S_UTC, S_TT][which];
            let tai = to_tai(axis, day as i128 * NS_D + off);
            let cnt = from_tai(s, tai).unwrap_or(tai);
            Wd { g: cnt + greg_offset_ns(s), s, target }
        })
        .boxed();
    wunion(vec![(4, free), (1, near_accessor_midnight)])
}

/// ET/TDB epochs are not asserted this close to a midnight of the accessor's scale: the conversion is only
/// required (C07) and observed to be accurate to some tens of nanoseconds
const DYN_MARGIN: i128 = 100;

thread_local! {
    static TZ_FORMAT: hifitime::efmt::Format = <hifitime::efmt::Format as std::str::FromStr>::from_str("%A %a %Y-%m-%d").unwrap();
    static W_FORMAT: hifitime::efmt::Format = <hifitime::efmt::Format as std::str::FromStr>::from_str("%w %Y").unwrap();
    static WEEKDAY_FORMAT: hifitime::efmt::Format = <hifitime::efmt::Format as std::str::FromStr>::from_str("%A %a").unwrap();
}

fn is_dyn(s: usize) -> bool {
    s == S_ET || s == S_TDB
}

fn wd_oracle(c: &Wd) -> Verdict {
    let cnt = c.g - greg_offset_ns(c.s);
    if !(cnt > DMIN + NPC && cnt < DMAX - NPC) {
        return Verdict::Skip("a bound would be hit");
    }
    let e = Epoch::from_duration(mk(cnt), SCALES[c.s]);
    let tai = to_tai(c.s, cnt);
    let near_mid = |x: i128, m: i128| {
        let t = x.rem_euclid(NS_D);
        t < m || t >= NS_D - m
    };
    if is_dyn(c.s) && near_mid(tai, DYN_MARGIN) {
        return Verdict::Skip("ET/TDB epoch within 100 ns of a TAI midnight");
    }
    let tai_day = tai.div_euclid(NS_D) as i64;
    let wd = weekday_of_day1900(tai_day) as i64;
    let got = lib!(e.weekday());
    ensure!(idx(got) == wd, "weekday() of {} count {} (TAI date day {}) = {:?}, want {}", SCALE_NAMES[c.s], cnt, tai_day, got, WEEKDAY_LONG[wd as usize]);
    // UTC accessor
    match from_tai(S_UTC, tai) {
        Some(u) => {
            if !(is_dyn(c.s) && near_mid(u, DYN_MARGIN)) {
                let uw = weekday_of_day1900(u.div_euclid(NS_D) as i64) as i64;
                let gotu = lib!(e.weekday_utc());
                ensure!(idx(gotu) == uw, "weekday_utc() of {} count {} = {:?}, want {}", SCALE_NAMES[c.s], cnt, gotu, WEEKDAY_LONG[uw as usize]);
            }
        }
        None => {}
    }
    // weekday_in_time_scale for the three scales whose reference epoch is 1900-01-01 (a Monday): TAI, UTC, TT
    ensure!(lib!(e.weekday_in_time_scale(SCALES[S_TAI])) == got, "weekday_in_time_scale(TAI) differs from weekday()");
    {
        let tt = tai + zero_tai_ns(S_TAI) - zero_tai_ns(S_TT);
        if !(is_dyn(c.s) && near_mid(tt, DYN_MARGIN)) {
            let tw = weekday_of_day1900(tt.div_euclid(NS_D) as i64) as i64;
            let gott = lib!(e.weekday_in_time_scale(SCALES[S_TT]));
            ensure!(idx(gott) == tw, "weekday_in_time_scale(TT) of {} count {} = {:?}, want {}", SCALE_NAMES[c.s], cnt, gott, WEEKDAY_LONG[tw as usize]);
        }
    }
    // the weekday printed by %A / %a is the civil weekday of the date in the epoch's own scale
    {
        let own = weekday_of_day1900(c.g.div_euclid(NS_D) as i64) as usize;
        let fa = lib!(format!("{}", hifitime::efmt::Formatter::new(e, WEEKDAY_FORMAT.with(|f| *f))));
        ensure!(fa == format!("{} {}", WEEKDAY_LONG[own], WEEKDAY_SHORT[own]), "\"%A %a\" of {} count {} prints {:?}, want {} {}", SCALE_NAMES[c.s], cnt, fa, WEEKDAY_LONG[own], WEEKDAY_SHORT[own]);
    }
    // with a time-zone offset the printed weekday is that of the shifted date printed next to it
    {
        let off_min = (crate::props::c08::day_hash(c.g.div_euclid(NS_D) as i64, 9) % 2879) as i128 - 1439;
        let shifted = c.g + off_min * NS_MIN;
        let sg = greg_of_ns1900(shifted);
        if (1..=9999).contains(&sg.y) {
            let own = weekday_of_day1900(shifted.div_euclid(NS_D) as i64) as usize;
            let fa = lib!(format!("{}", hifitime::efmt::Formatter::with_timezone(e, mk(off_min * NS_MIN), TZ_FORMAT.with(|f| *f))));
            let want = format!("{} {} {}-{:02}-{:02}", WEEKDAY_LONG[own], WEEKDAY_SHORT[own], fmt_year(sg.y), sg.m, sg.d);
            ensure!(fa == want, "\"%A %a %Y-%m-%d\" of {} count {} with offset {} min prints {:?}, want {:?}", SCALE_NAMES[c.s], cnt, off_min, fa, want);
        }
        // %w is the C89 number (Sunday = 0) of the weekday; asserted where the TAI date and the own-scale date are the same day
        let own = weekday_of_day1900(c.g.div_euclid(NS_D) as i64) as i64;
        if own == wd {
            let fw = lib!(format!("{}", hifitime::efmt::Formatter::new(e, W_FORMAT.with(|f| *f))));
            ensure!(fw == format!("{} {}", (wd + 1) % 7, fmt_year(greg_of_ns1900(c.g).y)), "\"%w %Y\" of {} count {} prints {:?}, want day number {}", SCALE_NAMES[c.s], cnt, fw, (wd + 1) % 7);
        }
    }
    // a date text with the wrong weekday name is refused, and the error names the civil weekday of that date (UTC text)
    if c.s == S_UTC && (1..=9999).contains(&greg_of_ns1900(c.g).y) {
        let g = greg_of_ns1900(c.g);
        let own = weekday_of_day1900(c.g.div_euclid(NS_D) as i64) as usize;
        let wrong = (own + 1 + c.target as usize % 6) % 7;
        let txt = format!("{}, {:02} {} {} {:02}:{:02}:{:02}", WEEKDAY_SHORT[wrong], g.d, MONTH_SHORT[(g.m - 1) as usize], fmt_year(g.y), g.hh, g.mm, g.ss);
        match lib!(hifitime::efmt::consts::RFC2822.parse(&txt)) {
            Err(hifitime::HifitimeError::Parse { source: hifitime::ParsingError::WeekdayMismatch { found, expected }, .. }) => {
                ensure!(idx(expected) as usize == own && idx(found) as usize == wrong, "{:?}: the error says found {:?}, expected {:?}; the date is a {}", txt, found, expected, WEEKDAY_LONG[own]);
            }
            Err(_) => {}
            Ok(p) => return Verdict::Fail(format!("{:?} (a {} called {}) is accepted as {}", txt, WEEKDAY_LONG[own], WEEKDAY_SHORT[wrong], p)),
        }
    }
    // next / previous
    let w = WD[c.target as usize];
    let k_next = { let k = (c.target as i64 - wd).rem_euclid(7); if k == 0 { 7 } else { k } };
    let k_prev = { let k = (wd - c.target as i64).rem_euclid(7); if k == 0 { 7 } else { k } };
    let n = lib!(e.next(w));
    ensure!(n.time_scale == SCALES[c.s] && count(n.duration) == cnt + k_next as i128 * NS_D, "next({:?}) of {} count {} moved {} ns, want exactly {} days", w, SCALE_NAMES[c.s], cnt, count(n.duration) - cnt, k_next);
    let p = lib!(e.previous(w));
    ensure!(p.time_scale == SCALES[c.s] && count(p.duration) == cnt - k_prev as i128 * NS_D, "previous({:?}) of {} count {} moved {} ns, want exactly -{} days", w, SCALE_NAMES[c.s], cnt, count(p.duration) - cnt, k_prev);
    if !near_mid(tai, 11 * NS_S + 1000) {
        ensure!(lib!(n.weekday()) == w, "next({:?}) falls on {:?}", w, n.weekday());
        ensure!(lib!(p.weekday()) == w, "previous({:?}) falls on {:?}", w, p.weekday());
    }
    // the _at_midnight / _at_noon variants are next / previous with the time of day replaced (with_hms_strict):
    // for results on or after the scale's reference epoch that is the start of the day of the count, plus 0 or 12 h
    let day_start = |x: i128| x.div_euclid(NS_D) * NS_D;
    let nc = cnt + k_next as i128 * NS_D;
    if nc >= 0 {
        let a = lib!(e.next_weekday_at_midnight(w));
        ensure!(a.time_scale == SCALES[c.s] && count(a.duration) == day_start(nc), "next_weekday_at_midnight({:?}) of {} count {} = {}, want {}", w, SCALE_NAMES[c.s], cnt, count(a.duration), day_start(nc));
        let b = lib!(e.next_weekday_at_noon(w));
        ensure!(b.time_scale == SCALES[c.s] && count(b.duration) == day_start(nc) + NS_D / 2, "next_weekday_at_noon({:?}) of {} count {} = {}, want {}", w, SCALE_NAMES[c.s], cnt, count(b.duration), day_start(nc) + NS_D / 2);
    }
    let pc = cnt - k_prev as i128 * NS_D;
    if pc >= 0 {
        let a = lib!(e.previous_weekday_at_midnight(w));
        ensure!(a.time_scale == SCALES[c.s] && count(a.duration) == day_start(pc), "previous_weekday_at_midnight({:?}) of {} count {} = {}, want {}", w, SCALE_NAMES[c.s], cnt, count(a.duration), day_start(pc));
        let b = lib!(e.previous_weekday_at_noon(w));
        ensure!(b.time_scale == SCALES[c.s] && count(b.duration) == day_start(pc) + NS_D / 2, "previous_weekday_at_noon({:?}) of {} count {} = {}, want {}", w, SCALE_NAMES[c.s], cnt, count(b.duration), day_start(pc) + NS_D / 2);
    }
    let g = greg_of_ns1900(c.g);
    let class = if near_mid(c.g, 1000) {
        "within-1us-of-midnight"
    } else if g.y < 1900 {
        "before-1900"
    } else if c.s != S_TAI {
        "scale!=TAI"
    } else {
        "plain"
    };
    Verdict::Pass(class, class != "plain")
}

pub fn subs() -> Vec<Box<dyn DynSub>> {
    vec![
        sub(Sub { name: "c16.arithmetic", source: Source::Enum(arith_enum, |_| true), oracle: arith_oracle, known: no_known, hang_is_violation: false }),
        sub(Sub { name: "c16.all_days", source: Source::Enum(wd_enum, |_| true), oracle: wd_oracle, known: no_known, hang_is_violation: false }),
        sub(Sub { name: "c16.generated", source: Source::Gen(wd_strategy, 2_400_000, 20_000_000), oracle: wd_oracle, known: no_known, hang_is_violation: false }),
        crate::props::fuzzsub::fc16(),
    ]
}

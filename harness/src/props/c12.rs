//! C12 — Epoch equality and ordering are chronological, whatever the time scales
use crate::engine::*;
use crate::gen::*;
use crate::model::*;
use crate::{ensure, lib};
use hifitime::Epoch;
use proptest::prelude::*;
use serde::{Deserialize, Serialize};
use std::cmp::Ordering;

pub const RULE: &str = "generated pairs and triples of epochs in any combination of the nine scales, built from a model instant x on the TAI axis and separations delta in {0, +-1 ns, +-2 ns, +-(161 ns..10 us), +-1 s, large}, each operand re-expressed in its scale by the model; structured pairs symmetric about a scale's reference epoch, either side of each leap entry, same instant in two scales; oracle = chronological order of the model instants for every comparison operator in both operand orders, min/max, Range::contains, sort, and invariance under to_time_scale of either operand to a third scale; non-trivial = different scales, |delta| <= 2 ns, a symmetric pair, or within 40 s of a leap entry; distinct = distinct case tuples (hash set, capped: lower bound); sets (c12.sets): 2-12 epochs of the seven exact scales at and around one instant, all pairs compared, sorted, deduplicated and searched; non-trivial = at least three operands in more than one scale";

pub const ASSUMPTIONS: &[&str] = &[
    "ET/TDB operands in different scales are only generated more than 160 ns apart (100 ns of the statement + 60 ns margin for the model's and the library's conversion error); within one scale any separation is generated",
    "an operand that is itself in UTC must have a UTC count; instants inside an inserted leap second held in another scale ARE compared with UTC operands (equality and order of instants are well defined); only conversions of such instants INTO UTC are skipped",
];

#[derive(Clone, Debug, Serialize, Deserialize)]
pub struct Pair {
    /// instant on the TAI axis
    pub x: i128,
    pub delta: i128,
    pub s1: usize,
    pub s2: usize,
    pub s3: usize,
    /// symmetric-about-reference structured pair: operands are (s1, c) and (s1, -c) with c = x reinterpreted
    pub symmetric: bool,
}

fn delta_any() -> BS<i128> {
    wunion(vec![
        (2, Just(0i128).boxed()),
        (3, prop::sample::select(vec![1i128, -1, 2, -2]).boxed()),
        (3, (any::<bool>(), 161i128..10_000).prop_map(|(s, d)| if s { -d } else { d }).boxed()),
        (1, prop::sample::select(vec![NS_S, -NS_S, 2 * NS_S, -2 * NS_S]).boxed()),
        (2, (any::<bool>(), log_mag(70)).prop_map(|(s, m)| if s { -m } else { m }).boxed()),
    ])
}

fn pair_strategy() -> BS<Pair> {
    (tai_count_any(), delta_any(), 0usize..9, 0usize..9, 0usize..9, prop::bool::weighted(0.15), prop::bool::weighted(0.3))
        .prop_map(|(x, delta, s1, s2, s3, symmetric, same)| Pair { x, delta, s1, s2: if same { s1 } else { s2 }, s3, symmetric })
        .boxed()
}

fn is_dyn(s: usize) -> bool {
    s == S_ET || s == S_TDB
}

/// builds the two operands: Ok((c1, c2, model ordering of op1 vs op2)) or Err(skip reason)
fn operands(p: &Pair) -> Result<(i128, i128, Ordering), &'static str> {
    if p.symmetric {
        // counts c and -c in the same scale, c derived from x (made small enough to matter)
        let c = p.x - greg_offset_ns(S_TAI) - j2000_ns() / 2;
        let c = if p.delta.abs() <= 2 { p.delta } else { c };
        return Ok((c, -c, c.cmp(&-c)));
    }
    if p.s1 == p.s2 {
        let c1 = match from_tai(p.s1, p.x) {
            Some(c) => c,
            None => return Err("instant inside an inserted leap second has no UTC count"),
        };
        return Ok((c1, c1 + p.delta, 0.cmp(&p.delta)));
    }
    if (is_dyn(p.s1) || is_dyn(p.s2)) && p.delta.abs() <= 160 {
        return Err("ET/TDB cross-scale pair closer than 100 ns + margin (statement excludes)");
    }
    // (only an operand that is itself in UTC needs a UTC count — from_tai below; an instant inside an inserted
    // second held in another scale is a perfectly good instant and must compare chronologically with UTC epochs)
    let c1 = from_tai(p.s1, p.x).ok_or("instant inside an inserted leap second has no UTC count")?;
    let c2 = from_tai(p.s2, p.x + p.delta).ok_or("instant inside an inserted leap second has no UTC count")?;
    Ok((c1, c2, 0.cmp(&p.delta)))
}

fn check_pair(a: Epoch, b: Epoch, ord: Ordering, what: &str) -> Result<(), String> {
    let r = guard(|| {
        (
            a == b, a != b, a < b, a <= b, a > b, a >= b, a.cmp(&b), a.partial_cmp(&b),
            b == a, b != a, b < a, b <= a, b > a, b >= a, b.cmp(&a), b.partial_cmp(&a),
        )
    })?;
    let (eq, ne, lt, le, gt, ge, cmp, pcmp, req, rne, rlt, rle, rgt, rge, rcmp, rpcmp) = r;
    let want = (
        ord == Ordering::Equal, ord != Ordering::Equal, ord == Ordering::Less, ord != Ordering::Greater, ord == Ordering::Greater, ord != Ordering::Less, ord, Some(ord),
    );
    if (eq, ne, lt, le, gt, ge, cmp, pcmp) != want {
        return Err(format!("{what}: a ? b gives ==:{eq} !=:{ne} <:{lt} <=:{le} >:{gt} >=:{ge} cmp:{cmp:?} partial_cmp:{pcmp:?}, chronological order is {ord:?}"));
    }
    let rord = ord.reverse();
    let rwant = (
        rord == Ordering::Equal, rord != Ordering::Equal, rord == Ordering::Less, rord != Ordering::Greater, rord == Ordering::Greater, rord != Ordering::Less, rord, Some(rord),
    );
    if (req, rne, rlt, rle, rgt, rge, rcmp, rpcmp) != rwant {
        return Err(format!("{what}: b ? a gives ==:{req} !=:{rne} <:{rlt} <=:{rle} >:{rgt} >=:{rge} cmp:{rcmp:?}, chronological order is {rord:?}"));
    }
    Ok(())
}

fn pair_oracle(p: &Pair) -> Verdict {
    let (c1, c2, ord) = match operands(p) {
        Ok(v) => v,
        Err(w) => return Verdict::Skip(w),
    };
    let (s1, s2) = if p.symmetric { (p.s1, p.s1) } else { (p.s1, p.s2) };
    if !(c1 > DMIN + 2 * NPC && c1 < DMAX - 2 * NPC && c2 > DMIN + 2 * NPC && c2 < DMAX - 2 * NPC) {
        return Verdict::Skip("a bound would be hit");
    }
    let a = Epoch::from_duration(mk(c1), SCALES[s1]);
    let b = Epoch::from_duration(mk(c2), SCALES[s2]);
    let what = format!("a = {} {} , b = {} {}", SCALE_NAMES[s1], c1, SCALE_NAMES[s2], c2);
    if let Err(m) = check_pair(a, b, ord, &what) {
        return Verdict::Fail(m);
    }
    // min / max return the chronologically first / last operand
    let mn = lib!(a.min(b));
    let mx = lib!(a.max(b));
    let is = |e: Epoch, f: Epoch| e.time_scale == f.time_scale && e.duration.to_parts() == f.duration.to_parts();
    // `a.min(b)` on a value is Ord::min; the inherent Epoch::min / Epoch::max take `&self` and are reached by reference
    for (name, got, want_first) in [("Epoch::min(&a, b)", lib!(Epoch::min(&a, b)), true), ("Epoch::max(&a, b)", lib!(Epoch::max(&a, b)), false), ("Ord::min(a, b)", lib!(Ord::min(a, b)), true), ("Ord::max(a, b)", lib!(Ord::max(a, b)), false)] {
        let ok = match (ord, want_first) {
            (Ordering::Less, true) | (Ordering::Greater, false) => is(got, a),
            (Ordering::Less, false) | (Ordering::Greater, true) => is(got, b),
            _ => is(got, a) || is(got, b),
        };
        ensure!(ok, "{} returns {} {} for {}", name, SCALE_NAMES[scale_index(got.time_scale)], count(got.duration), what);
    }
    match ord {
        Ordering::Less => ensure!(is(mn, a) && is(mx, b), "min/max wrong for {}", what),
        Ordering::Greater => ensure!(is(mn, b) && is(mx, a), "min/max wrong for {}", what),
        Ordering::Equal => ensure!((is(mn, a) || is(mn, b)) && (is(mx, a) || is(mx, b)), "min/max return a foreign epoch for {}", what),
    }
    // ranges
    let contains = lib!((a..b).contains(&a));
    ensure!(contains == (ord == Ordering::Less), "(a..b).contains(&a) = {} for {}", contains, what);
    let contains_b = lib!((a..=b).contains(&b));
    ensure!(contains_b == (ord != Ordering::Greater), "(a..=b).contains(&b) = {} for {}", contains_b, what);
    // sort
    let v = lib!({
        let mut v = vec![b, a, b, a];
        v.sort();
        v
    });
    match ord {
        Ordering::Less => ensure!(is(v[0], a) && is(v[1], a) && is(v[2], b) && is(v[3], b), "sort wrong for {}", what),
        Ordering::Greater => ensure!(is(v[0], b) && is(v[1], b) && is(v[2], a) && is(v[3], a), "sort wrong for {}", what),
        Ordering::Equal => {}
    }
    // invariance under conversion of either operand to a third scale
    let s3 = p.s3;
    // any conversion into / out of ET/TDB costs a few ns: only assert beyond the statement's margin
    let third_ok = if is_dyn(s3) || is_dyn(s1) || is_dyn(s2) { p.delta.abs() > 160 } else { true };
    // a conversion of an operand into UTC needs a UTC count for its instant; when ET/TDB takes part as well the
    // instant must also stay 200 ns clear of every inserted second: a conversion error of a few ns could otherwise
    // move it into the inserted second, where the UTC count steps back by 1 s
    let m = if is_dyn(s1) || is_dyn(s2) || is_dyn(s3) { 200 } else { 0 };
    let clear = |s: usize, c: i128| {
        let t = to_tai(s, c);
        from_tai(S_UTC, t - m).is_some() && from_tai(S_UTC, t).is_some() && from_tai(S_UTC, t + m).is_some()
    };
    // converting an operand INTO UTC needs a UTC count for its instant
    let third_allowed = s3 != S_UTC || (clear(s1, c1) && clear(s2, c2));
    let exact_conv = |_s_from: usize, _c: i128| -> Option<()> {
        if third_allowed {
            Some(())
        } else {
            None
        }
    };
    if third_ok && !p.symmetric {
        if exact_conv(s1, c1).is_some() {
            let a3 = lib!(a.to_time_scale(SCALES[s3]));
            if let Err(m) = check_pair(a3, b, ord, &format!("after converting a to {}: {}", SCALE_NAMES[s3], what)) {
                return Verdict::Fail(m);
            }
        }
        if exact_conv(s2, c2).is_some() {
            let b3 = lib!(b.to_time_scale(SCALES[s3]));
            if let Err(m) = check_pair(a, b3, ord, &format!("after converting b to {}: {}", SCALE_NAMES[s3], what)) {
                return Verdict::Fail(m);
            }
        }
    }
    let near = dist_to_leap(p.x) <= 41 * NS_S;
    let class = if p.symmetric {
        "symmetric-about-reference"
    } else if s1 != s2 && p.delta.abs() <= 2 {
        "two-scales,|delta|<=2ns"
    } else if s1 != s2 {
        "two-scales"
    } else if p.delta.abs() <= 2 {
        "|delta|<=2ns"
    } else if near {
        "near-leap"
    } else {
        "plain"
    };
    Verdict::Pass(class, class != "plain")
}

#[derive(Clone, Debug, Serialize, Deserialize)]
pub struct Triple {
    pub x: i128,
    pub d: [i128; 3],
    pub s: [usize; 3],
}

fn triple_strategy() -> BS<Triple> {
    (tai_count_any(), proptest::array::uniform3(delta_any()), proptest::array::uniform3(0usize..9))
        .prop_map(|(x, d, s)| Triple { x, d, s })
        .boxed()
}

fn triple_oracle(t: &Triple) -> Verdict {
    // any two operands in different scales with ET/TDB involved must be > 160 ns apart
    let mut eps = vec![];
    for i in 0..3 {
        let inst = t.x + t.d[i];
        let Some(c) = from_tai(t.s[i], inst) else {
            return Verdict::Skip("instant inside an inserted leap second has no UTC count");
        };
        if !(c > DMIN + 2 * NPC && c < DMAX - 2 * NPC) {
            return Verdict::Skip("a bound would be hit");
        }
        eps.push((Epoch::from_duration(mk(c), SCALES[t.s[i]]), inst));
    }
    for i in 0..3 {
        for j in 0..3 {
            if i != j && t.s[i] != t.s[j] && (is_dyn(t.s[i]) || is_dyn(t.s[j])) && (t.d[i] - t.d[j]).abs() <= 160 {
                return Verdict::Skip("ET/TDB cross-scale pair closer than 100 ns + margin (statement excludes)");
            }
            if i != j && t.s[i] == t.s[j] && is_dyn(t.s[i]) && t.d[i] != t.d[j] && (t.d[i] - t.d[j]).abs() <= 160 {
                // same dynamical scale but built through the model's solver: rounding may merge/flip them
                return Verdict::Skip("ET/TDB operands closer than the model's resolution");
            }
        }
    }
    for i in 0..3 {
        for j in 0..3 {
            let (a, ia) = eps[i];
            let (b, ib) = eps[j];
            let n = [lib!(a < b), lib!(a == b), lib!(a > b)].iter().filter(|x| **x).count();
            ensure!(n == 1, "not exactly one of <, ==, > for operands {} and {}: {:?}", i, j, t);
            ensure!(lib!(a.cmp(&b)) == ia.cmp(&ib), "cmp of operands {} and {} is {:?}, chronological {:?}: {:?}", i, j, a.cmp(&b), ia.cmp(&ib), t);
            for k in 0..3 {
                let (c, _) = eps[k];
                if lib!(a <= b) && lib!(b <= c) {
                    ensure!(lib!(a <= c), "transitivity fails: {:?}", t);
                }
                if lib!(a == b) && lib!(b == c) {
                    ensure!(lib!(a == c), "equality not transitive: {:?}", t);
                }
            }
        }
    }
    // sorting three epochs gives chronological order
    let sorted = lib!({
        let mut v: Vec<(Epoch, i128)> = eps.clone();
        v.sort_by(|p, q| p.0.cmp(&q.0));
        v
    });
    ensure!(sorted.windows(2).all(|w| w[0].1 <= w[1].1), "sort of three epochs is not chronological: {:?}", t);
    let nt = t.s[0] != t.s[1] || t.s[1] != t.s[2];
    Verdict::Pass(if nt { "mixed-scales" } else { "one-scale" }, nt)
}

pub fn subs() -> Vec<Box<dyn DynSub>> {
    vec![
        sub(Sub { name: "c12.pairs", source: Source::Gen(pair_strategy, 4_000_000, 50_000_000), oracle: pair_oracle, known: no_known, hang_is_violation: false }),
        sub(Sub { name: "c12.triples", source: Source::Gen(triple_strategy, 800_000, 8_000_000), oracle: triple_oracle, known: no_known, hang_is_violation: false }),
        crate::props::chain::c12_chain(),
        crate::props::fuzzsub::fc12(),
    ]
}
